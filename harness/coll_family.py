"""Correspondence runs for the collection properties C09, C10, C11 (and the S3/file constructors
used by C18): MosCollection built from strings / files / a fake S3, validated, merged."""
import itertools
import json
import os
import random
import shutil
import subprocess
import sys
import tempfile
import warnings

from . import build as B, hist_run, treejson as TJ
from .core import Outcome, stable_hash, VERIF


# ---- fake S3 (the real get_mos_files / get_file_contents bodies run against it) -------------------

class FakeS3:
    """Replaces the lazily created boto3 client/resource inside mosromgr.utils.s3.s3."""

    def __init__(self, objects, page_size=2, pages=None):
        self.objects = dict(objects)          # key -> bytes
        self.page_size = page_size
        self.pages = pages                    # explicit page layout (list of lists of keys) or None

    # client
    def get_paginator(self, name):
        assert name == 'list_objects', name
        return self

    def paginate(self, Bucket, Prefix):
        if self.pages is not None:
            for pg in self.pages:
                ks = [k for k in pg if k.startswith(Prefix)]
                yield {'Contents': [{'Key': k} for k in ks]} if ks else {'ResponseMetadata': {}}
            return
        ks = [k for k in sorted(self.objects) if k.startswith(Prefix)]
        if not ks:
            yield {'ResponseMetadata': {}}     # what S3 answers for an empty listing: no 'Contents'
            return
        for i in range(0, len(ks), self.page_size):
            yield {'Contents': [{'Key': k} for k in ks[i:i + self.page_size]]}

    # resource
    def Object(self, bucket, key):
        data = self.objects[key]

        class _Body:
            # the parts of botocore's StreamingBody a reader of an object may use (a stream: what was read is gone)
            _pos = 0

            def read(self_inner, amt=None):
                start = self_inner._pos
                end = len(data) if amt is None else min(len(data), start + amt)
                self_inner._pos = end
                return data[start:end]

            def iter_lines(self_inner, chunk_size=1024, keepends=False):
                return iter(data.splitlines(keepends))

            def iter_chunks(self_inner, chunk_size=1024):
                return (data[i:i + chunk_size] for i in range(0, len(data), chunk_size))

            def __iter__(self_inner):
                return self_inner.iter_chunks()

            def close(self_inner):
                pass

        class _Obj:
            def get(self_inner):
                return {'Body': _Body()}
        return _Obj()


def install_fake_s3(fake):
    from mosromgr.utils import s3 as s3mod
    s3mod.s3._client = fake
    s3mod.s3._resource = fake


# ---- running the implementation -----------------------------------------------------------------

def doc_bytes(text):
    """The bytes of a document given as text: in the encoding its XML declaration names (UTF-8 without one)."""
    import re
    m = re.match(r'<\?xml[^>]*encoding="([^"]+)"', text)
    return text.encode(m.group(1) if m else 'utf-8')


_FILES_DIR = None


def _files_dir():
    global _FILES_DIR
    if _FILES_DIR is None or _FILES_DIR[0] != os.getpid() or not os.path.isdir(_FILES_DIR[1]):      # one directory per process
        import atexit
        d = tempfile.mkdtemp(prefix='mrm-coll-files-')
        atexit.register(shutil.rmtree, d, True)
        _FILES_DIR = (os.getpid(), d)
    return _FILES_DIR[1]


def impl_collection(texts, allow, strict, via='strings', keys=None, page_size=2, listing='sorted'):
    """Build a MosCollection from `texts` (in the given order) and merge it.
    -> {'err', 'reader_ids', 'ro_msg_id', 'run': {'ro','warns','err'} | None, 'text'}"""
    from . import impl
    from mosromgr.moscollection import MosCollection
    out = {'err': None, 'reader_ids': [], 'ro_msg_id': None, 'run': None, 'text': None}
    tmp = None
    impl.apply_cfg(impl.cfg_for(''.join(texts) + via + str(strict)))
    try:
        with warnings.catch_warnings():
            warnings.simplefilter('ignore')
            if via == 'strings':
                mc = MosCollection.from_strings(list(texts), allow_incomplete=allow)
            elif via == 'files':
                # always the same few paths (rewritten for every collection, modification time preserved as a copy
                # tool would): a collection is built from what the files hold NOW
                d = _files_dir()
                paths = []
                seen_text = {}
                for i, t in enumerate(texts):
                    if t in seen_text:
                        paths.append(seen_text[t])          # the very same file listed again
                        continue
                    p = os.path.join(d, f'f{i:03d}.mos.xml')
                    seen_text[t] = p
                    with open(p, 'wb') as f:
                        f.write(doc_bytes(t))
                    os.utime(p, (1000000000, 1000000000))
                    paths.append(p)
                mc = MosCollection.from_files(paths, allow_incomplete=allow)
            elif via == 's3':
                # key names are opaque: '+', '%xx' sequences, blanks and non-ASCII letters are part of the name
                keys = keys or [f'prefix/k{i:03d}{["", "+a", "%25", "%2B b", " c", "é", ".rev1.2", "-T17.00.00"][i % 8]}.mos.xml' for i in range(len(texts))]
                objs = {k: doc_bytes(t) for k, t in zip(keys, texts)}
                objs['prefix/ignored.txt'] = b'not a mos file'
                # attachments that sort between the messages: with the small page size some listing page holds none of the messages
                first_key = sorted(k_ for k_ in objs if k_.endswith('.mos.xml'))[0]
                for j_ in range(2 * page_size + 1):
                    objs[f'{first_key}~attachment{j_}.json'] = b'{}'
                pages = None
                if listing == 'supplied':
                    # the listing in the order the keys were supplied (a store is not obliged to list in key order)
                    ks_ = [k for k in keys] + ['prefix/ignored.txt']
                    pages = [ks_[i:i + page_size] for i in range(0, len(ks_), page_size)]
                install_fake_s3(FakeS3(objs, page_size=page_size, pages=pages))
                mc = MosCollection.from_s3(bucket_name='bucket', prefix='prefix/', allow_incomplete=allow)
            else:
                raise ValueError(via)
    except Exception as e:  # noqa: BLE001
        out['err'] = impl.err_name(e)
        if tmp:
            shutil.rmtree(tmp, ignore_errors=True)
        return out
    try:
        out['reader_ids'] = [mr.message_id for mr in mc.mos_readers]
        out['reader_types'] = [mr.mos_type.__name__ for mr in mc.mos_readers]
        out['ro_msg_id'] = mc.ro.message_id
        err = None
        with warnings.catch_warnings(record=True) as w:
            warnings.simplefilter('always')
            try:
                mc.merge(strict=strict)
            except Exception as e:  # noqa: BLE001
                err = impl.err_name(e)
        ws = impl.lib_warnings(w)
        from mosromgr import exc as _exc
        out['run'] = {'ro': TJ.to_tree(mc.ro.xml), 'warns': ws, 'err': err,
                      'nonstrict_by_category': sum(1 for x in w if issubclass(x.category, _exc.MosMergeNonStrictWarning))}
        out['text'] = str(mc)
    except Exception as e:  # noqa: BLE001 - an accessor of the collection itself raised: an observation like any other
        out['err'] = impl.err_name(e)
        out['run'] = None
    finally:
        if tmp:
            shutil.rmtree(tmp, ignore_errors=True)
    return out


def hand_fold(texts_sorted, strict):
    """The property's own reference: add each message, freshly read, to the roCreate, in order."""
    from . import impl
    from mosromgr import exc
    mid = lambda t: int(TJ.child_text(TJ.parse(t), 'messageID'))
    texts_sorted = sorted(texts_sorted, key=mid)
    creates = [t for t in texts_sorted if TJ.find(TJ.parse(t), 'roCreate') is not None]
    ro = impl.load(creates[0])
    rest = [t for t in texts_sorted if t is not creates[0]]
    warns, failures, err = [], 0, None
    for t in rest:
        mo = impl.load(t)
        snap_tree, snap = TJ.to_tree(ro.xml), None
        with warnings.catch_warnings(record=True) as w:
            warnings.simplefilter('always')
            try:
                snap = str(ro)
                ro += mo
            except exc.MosRoMgrException as e:
                # a message that fails to merge: whatever class of the library's own hierarchy it raises.
                # "Skipped" / "holds the result of all earlier messages": the reference continues from the
                # state before the failed message, whatever the failed merge left behind.
                if TJ.to_tree(ro.xml) != snap_tree:
                    ro = impl.load(snap)
                failures += 1
                warns += impl.lib_warnings(w)
                if strict:
                    err = impl.err_name(e)
                    break
                warns.append('MosMergeNonStrictWarning')
                continue
            except Exception as e:  # noqa: BLE001
                warns += impl.lib_warnings(w)
                err = impl.err_name(e)
                break
            warns += impl.lib_warnings(w)
    return {'ro': TJ.to_tree(ro.xml), 'text': str(ro), 'warns': warns, 'err': err, 'failures': failures}


def model_collection(reqs):
    from . import lean
    return lean.run_batch(reqs, jobs=min(16, max(1, len(reqs) // 20)))


def model_req(texts, allow, strict):
    return {'op': 'collection', 'docs': [TJ.parse(t) for t in texts], 'allow_incomplete': allow, 'strict': strict}


def obs_key(o, tree=False):
    """The comparable part of an implementation observation: how the collection was built and how the
    merge loop behaved (errors, reader order, warnings).  The merged tree itself is the projection of
    the merge properties C01-C06 and is compared here only on request."""
    run = o['run']
    k = {'err': o['err'], 'reader_ids': o['reader_ids'], 'ro_msg_id': o['ro_msg_id'],
         'run': None if run is None else {'warns': run['warns'], 'err': run['err']}}
    if tree and run is not None:
        k['run']['ro'] = run['ro']
    return k


def model_key(r, tree=False):
    run = r['run']
    k = {'err': r['err'], 'reader_ids': r['reader_ids'], 'ro_msg_id': r['ro_msg_id'],
         'run': None if run is None else {'warns': run['warns'], 'err': run['err']}}
    if tree and run is not None:
        k['run']['ro'] = run['ro']
    return k


# ---- C09 ------------------------------------------------------------------------------------------

def with_create_id(docs, ids, rng):
    """The same collection with the roCreate carrying a message ID that is NOT the lowest."""
    if len(ids) < 3:
        return None
    k = rng.randrange(2, len(ids))
    new_id = ids[k] * 10 + 5 if False else None
    # an unused ID strictly between ids[k-1] and ids[k] if there is room, else above all
    lo, hi = ids[k - 1], ids[k]
    new_id = lo + 1 if hi - lo > 1 else max(ids) + 7
    first = docs[0].replace(f'<messageID>{ids[0]}</messageID>', f'<messageID>{new_id}</messageID>', 1)
    if first == docs[0]:
        return None
    return [first] + docs[1:]


def run_c09(tier, seed):
    oc = Outcome('C09')
    n_hist = 250 if tier == 'quick' else 6000
    hists = hist_run.run_histories([seed * 7919 + 13 * k for k in range(n_hist)],
                                   max_steps=10 if tier == 'quick' else 30)
    jobs = []
    rng = random.Random(seed * 19 + 3)
    for h in hists:
        docs = h['docs']
        has_delete = any(st['cls'] == 'RunningOrderEnd' for st in h['steps'])
        alt = with_create_id(docs, h['ids'], rng)
        if alt is not None:
            jobs.append((h['seed'], alt, True, False, 'strings'))
            jobs.append((h['seed'], alt, True, True, rng.choice(['strings', 'files', 's3'])))
        for strict in (False, True):
            jobs.append((h['seed'], docs, True, strict, 'strings'))
            if has_delete:
                jobs.append((h['seed'], docs, False, strict, 'strings'))
        if h['seed'] % 3 == 0:
            jobs.append((h['seed'], docs, True, False, 'files'))
            jobs.append((h['seed'], docs, True, False, 's3'))
        if h['seed'] % 4 == 1 and len(docs) > 1 and '</mos>' in docs[0]:
            # the roCreate document is a running order that was completed and saved earlier; late messages follow
            done = docs[0].replace('</mos>', '<mosromgrmeta><roDelete><roID>RO1</roID></roDelete></mosromgrmeta></mos>')
            for strict in (False, True):
                jobs.append((h['seed'], [done] + docs[1:], True, strict, 'strings'))
    # scripted collections: a multi-element message that fails at its k-th element, then valid messages of the same
    # family, then the roDelete - "every subset/position of messages that fail to merge"
    plans = hist_run._fault_then_valid_plans()
    for pi, (name, ro_tree, plan) in enumerate(plans[::(5 if tier == 'quick' else 1)]):
        docs = [TJ.to_text(ro_tree)] + [TJ.to_text(m) for _, m in plan] + [TJ.to_text(B.ro_delete(message_id='99'))]
        for strict in (False, True):
            jobs.append(('fault-then-valid: ' + name, docs, False, strict, 'strings' if pi % 5 else 'files'))
    # messages whose IDs are spread over several element_source blocks, a later block holding an unknown / blank / repeated
    # ID: the failing message must not be applied in part (strict: the result is that of the earlier messages)
    st5 = lambda: B.ro_doc([B.story(f'S{k}', [B.item(f'i{k}a'), B.item(f'i{k}b'), B.item(f'i{k}c')]) for k in range(1, 6)], message_id='1')
    blocks = [('story move, unknown in 2nd block', B.ea('MOVE', {'storyID': 'S1'}, [B.ids('storyID', ['S4']), B.ids('storyID', ['ZZ'])], message_id='11')),
              ('story move, blank in 3rd block', B.ea('MOVE', {'storyID': 'S2'}, [B.ids('storyID', ['S5']), B.ids('storyID', ['S3']), B.ids('storyID', [B.BLANK])], message_id='12')),
              ('story move, repeat in 2nd block', B.ea('MOVE', {'storyID': 'S1'}, [B.ids('storyID', ['S3', 'S4']), B.ids('storyID', ['S3'])], message_id='13')),
              ('story move, target in 2nd block', B.ea('MOVE', {'storyID': 'S2'}, [B.ids('storyID', ['S5']), B.ids('storyID', ['S2'])], message_id='14')),
              ('story delete over blocks, unknown in 2nd', B.ea('DELETE', B.ABSENT, [B.ids('storyID', ['S5']), B.ids('storyID', ['ZZ', 'S4'])], message_id='15')),
              ('item delete over blocks', B.ea('DELETE', {'storyID': 'S1'}, [B.ids('itemID', ['i1a']), B.ids('itemID', ['zz', 'i1c'])], message_id='16')),
              ('valid story move over blocks', B.ea('MOVE', {'storyID': 'S1'}, [B.ids('storyID', ['S3']), B.ids('storyID', ['S2'])], message_id='17'))]
    for k in range(len(blocks)):
        docs_b = [TJ.to_text(st5())] + [TJ.to_text(m) for _, m in blocks[k:] + blocks[:k]][:4]
        # (message IDs must ascend in the collection: renumber)
        docs_b = [docs_b[0]] + [__import__('re').sub(r'<messageID>\d+</messageID>', f'<messageID>{20 + j}</messageID>', t, count=1) for j, t in enumerate(docs_b[1:])]
        docs_b.append(TJ.to_text(B.ro_delete(message_id='99')))
        for strict in (False, True):
            jobs.append((f'element_source blocks: {blocks[k][0]} first', docs_b, False, strict, 'strings'))
    # documents given as str that still carry the encoding declaration of the file they came from, with non-ASCII text:
    # a collection restores what it was given (strings), or what the bytes say (files, S3 objects)
    decl = '<?xml version="1.0" encoding="ISO-8859-1"?>'
    acc = [decl + TJ.to_text(B.ro_doc([B.story('Soir\u00e9e', [B.p('caf\u00e9 \u00a320')])], message_id='1', slug='M\u00e9t\u00e9o')),
           decl + TJ.to_text(B.story_append([B.story('\u00dcber', [B.p('na\u00efve')])], message_id='2')),
           decl + TJ.to_text(B.story_delete(['Soir\u00e9e', 'nowhere\u00e9'], message_id='3')), decl + TJ.to_text(B.ro_delete(message_id='4'))]
    for via in ('strings', 'files', 's3'):
        for strict in (False, True):
            jobs.append(('declared ISO-8859-1, non-ASCII text', acc, False, strict, via))
    pc = 'RO%3B2021%d {0}'
    pct = [TJ.to_text(B.ro_doc([B.story('A', [B.item('a1')])], message_id='1', ro_id=pc)), TJ.to_text(B.story_insert('nowhere', [B.story('N')], message_id='2', ro_id=pc)),
           TJ.to_text(B.story_append([B.story('M')], message_id='3', ro_id=pc)), TJ.to_text(B.ro_delete(message_id='4', ro_id=pc)), TJ.to_text(B.ready_to_air(message_id='5', ro_id=pc))]
    for strict in (False, True):
        for via in ('strings', 's3'):
            jobs.append(('running-order ID with percent signs and braces', pct, False, strict, via))
    # collections of exactly 63, 64, 65, 127, 128, 129 messages after the roCreate (batch sizes a loop might work in)
    for nmsg in (63, 64, 65, 127, 128, 129):
        docs_n = [TJ.to_text(B.ro_doc([B.story('A')], message_id='1'))]
        docs_n += [TJ.to_text(B.story_append([B.story(f'N{k}')], message_id=str(10 + k))) for k in range(nmsg - 1)]
        docs_n.append(TJ.to_text(B.ro_delete(message_id='9000')))
        for strict in (False, True):
            jobs.append((f'{nmsg} messages', docs_n, False, strict, 'strings' if strict else 'files'))
    # the same document supplied twice (the same file listed twice, the same string twice): two messages
    twice = [TJ.to_text(B.ro_doc([B.story('A', [B.item('a1')])], message_id='1')), TJ.to_text(B.story_append([B.story('T')], message_id='5')),
             TJ.to_text(B.item_replace('A', 'ZZ', [B.item('n')], message_id='6'))]
    for via in ('strings', 'files', 's3'):
        jobs.append(('same document twice', [twice[0], twice[1], twice[1], twice[2], twice[2]], True, False, via))
    # one long collection: 140 messages of which 130 fail (every failure is reported, however many there are)
    long_docs = [TJ.to_text(B.ro_doc([B.story('A', [B.item('a1')])], message_id='1'))]
    for k in range(130):
        long_docs.append(TJ.to_text([B.story_insert('ZZ', [B.story(f'N{k}')], message_id=str(10 + k)), B.item_delete('ZZ', ['a1'], message_id=str(10 + k)),
                                     B.ea('SWAP', B.ABSENT, [B.ids('storyID', ['A', 'ZZ'])], message_id=str(10 + k))][k % 3]))
    for k in range(10):
        long_docs.append(TJ.to_text(B.story_append([B.story(f'G{k}')], message_id=str(500 + k))))
    long_docs.append(TJ.to_text(B.ro_delete(message_id='900')))
    long_docs += [TJ.to_text(B.ready_to_air(message_id=str(901 + k))) for k in range(5)]
    jobs.append(('long collection with 135 failures', long_docs, False, False, 'strings'))
    jobs.append(('long collection with 135 failures', long_docs, False, True, 'strings'))
    # one failing message at the k-th position of a long collection (round numbers a progress counter or a batch might use):
    # strict stops there, whatever k is; non-strict reports it and goes on
    for kpos in (10, 16, 25, 32, 49, 50, 51, 64, 99, 100, 101, 128):
        docs_k = [TJ.to_text(B.ro_doc([B.story('A', [B.item('a1')])], message_id='1'))]
        for k in range(2, 132):
            docs_k.append(TJ.to_text(B.story_insert('ZZ', [B.story(f'F{k}')], message_id=str(10 + k)) if k == kpos
                                     else B.story_append([B.story(f'N{k}')], message_id=str(10 + k))))
        docs_k.append(TJ.to_text(B.ro_delete(message_id='9000')))
        for strict in (True, False):
            jobs.append((f'one failing message at position {kpos} of {len(docs_k)}', docs_k, False, strict, 'strings' if kpos % 2 else 'files'))
    reqs = [model_req(docs, allow, strict) for (_, docs, allow, strict, _) in jobs]
    models = model_collection(reqs)
    for (hseed, docs, allow, strict, via), m in zip(jobs, models):
        oc.evaluations += 1
        oc.in_domain += 1
        oc.count(f'via:{via}')
        oc.count('strict' if strict else 'non-strict')
        o = impl_collection(docs, allow, strict, via=via)
        rec = {'kind': 'collection', 'docs': docs, 'allow_incomplete': allow, 'strict': strict, 'via': via,
               'label': f'hist seed={hseed} n={len(docs)}'}
        if obs_key(o) != model_key(m):
            oc.disagreements.append(dict(rec, what='collection outcome', impl=_brief(o), model=_brief_model(m)))
        if o['err'] is None:
            hf = hand_fold(docs, strict)      # docs of a history are already in ascending ID order
            ok = (o['text'] == hf['text'] and o['run']['err'] == hf['err'] and o['run']['warns'] == hf['warns'])
            if not strict:
                # one MosMergeNonStrictWarning per failing message - counted by name and by category (a caller filters
                # with issubclass: no other warning of the library may pass for one)
                ok = ok and o['run']['warns'].count('MosMergeNonStrictWarning') == hf['failures'] == o['run'].get('nonstrict_by_category', hf['failures'])
            oc.count('failing-steps:%d' % min(hf['failures'], 5))
            if not ok:
                oc.failing.append(dict(rec, spec='collection merge == hand fold over freshly read messages',
                                       impl=_brief(o), hand_fold={'err': hf['err'], 'warns': hf['warns'],
                                                                  'failures': hf['failures'], 'text': hf['text']}))
            if hf['failures'] or hf['warns']:
                hsh = stable_hash([docs, allow, strict, via])
                if hsh not in oc.nontrivial:
                    oc.nontrivial.add(hsh)
                    if len(oc.samples) < 3:
                        oc.samples.append({'docs': docs[:4], 'n_docs': len(docs), 'strict': strict, 'via': via,
                                           'failures': hf['failures'], 'warns': hf['warns'][:6]})
        else:
            oc.count('construction-error:' + str(o['err']))
    reuse_and_remerge_check(oc, 'C09')
    oc.rule = ('collections built from state-aware random histories (G-hist) x {strict, non-strict} x '
               '{allow_incomplete} x {strings, files, fake S3}; non-trivial = at least one message failed or warned')
    return oc


def fault_collections_check(oc, tier):
    """C05, "every sequence of such failures inside a non-strict collection merge": scripted collections in which
    multi-element messages fail at their k-th element; after the non-strict merge the running order is exactly what
    adding the non-failing messages one by one gives (a failed message leaves nothing behind - not even whitespace)."""
    plans = hist_run._fault_then_valid_plans()
    for pi, (name, ro_tree, plan) in enumerate(plans[::(3 if tier == 'quick' else 1)]):
        for variant in range(2):
            ro_t = ro_tree if variant == 0 else __import__('harness.elem_family', fromlist=['pretty']).pretty(ro_tree)   # compact / pretty-printed
            docs = [TJ.to_text(ro_t)] + [TJ.to_text(m) for _, m in plan] + [TJ.to_text(B.ro_delete(message_id='99'))]
            o = impl_collection(docs, False, False, via='strings')
            hf = hand_fold(docs, False)
            oc.evaluations += 1
            oc.in_domain += 1
            oc.count('fault-collections')
            if o['err'] is not None or o['text'] != hf['text'] or o['run']['err'] != hf['err']:
                oc.failing.append({'kind': 'collection', 'docs': docs, 'allow_incomplete': False, 'strict': False, 'via': 'strings',
                                   'label': 'fault-then-valid collection: ' + name + (' (pretty-printed)' if variant else ''),
                                   'spec': 'after a non-strict collection merge the running order is what adding the non-failing messages one by one gives: '
                                           'a message that failed left nothing behind', 'impl': _brief(o), 'hand_fold': {'err': hf['err'], 'text': hf['text'][:1500]}})
            oc.nontrivial.add(stable_hash(['fc', docs]))
    # messages that only WARN (a duplicate or unknown element among good ones, not first): they are no failures - a strict
    # merge applies them completely, exactly like a non-strict one and like adding them by hand
    N = lambda i: B.story(i, [B.item(i + '-1')])
    ro_w = B.ro_doc([N('A'), N('B'), N('C')], message_id='1')
    warners = [('story insert [new, duplicate, new]', B.story_insert('B', [N('N1'), N('A'), N('N2')], message_id='5')),
               ('EA story insert [new, duplicate, new]', B.ea('INSERT', {'storyID': 'C'}, [[N('N3'), N('B'), N('N4')]], message_id='6')),
               ('story delete [known, unknown, known]', B.story_delete(['A', 'nowhere', 'C'], message_id='7')),
               ('item delete [known, unknown]', B.item_delete('B', ['B-1', 'nowhere'], message_id='8')),
               ('EA story delete over blocks', B.ea('DELETE', B.ABSENT, [B.ids('storyID', ['nowhere']), B.ids('storyID', ['N1'])], message_id='9')),
               ('story send to an unknown story', B.story_send('nowhere', [B.p('x')], message_id='10'))]
    for k in range(len(warners)):
        docs = [TJ.to_text(ro_w)] + [TJ.to_text(m) for _, m in warners[:k + 1]] + [TJ.to_text(B.ro_delete(message_id='99'))]
        hf = hand_fold(docs, True)
        for strict in (True, False):
            for via in ('strings', 'files'):
                o = impl_collection(docs, False, strict, via=via)
                oc.evaluations += 1
                oc.in_domain += 1
                oc.count('warn-only-collections')
                if o['err'] is not None or o['run'] is None or o['run']['err'] is not None or o['text'] != hf['text'] or o['run']['warns'] != hf['warns']:
                    oc.failing.append({'kind': 'collection', 'docs': docs, 'allow_incomplete': False, 'strict': strict, 'via': via,
                                       'label': f'warn-only messages up to "{warners[k][0]}" strict={strict} via {via}',
                                       'spec': 'a message that only warns is applied completely, strictly or not: the collection gives what adding the messages by hand gives, and raises nothing',
                                       'impl': _brief(o), 'hand_fold': {'err': hf['err'], 'warns': hf['warns'], 'text': hf['text'][:1500]}})


def _brief(o):
    run = o['run']
    return {'err': o['err'], 'reader_ids': o['reader_ids'], 'ro_msg_id': o['ro_msg_id'],
            'run': None if run is None else {'err': run['err'], 'warns': run['warns'], 'ro_text': TJ.to_text(run['ro'])}}


def _brief_model(m):
    run = m['run']
    return {'err': m['err'], 'reader_ids': m['reader_ids'], 'ro_msg_id': m['ro_msg_id'],
            'run': None if run is None else {'err': run['err'], 'warns': run['warns'], 'ro_text': TJ.to_text(run['ro'])}}


# ---- C10 ------------------------------------------------------------------------------------------

def run_c10(tier, seed):
    oc = Outcome('C10')
    rng = random.Random(seed * 31 + 5)
    max_perm_len = 5 if tier == 'quick' else 7
    n_hist = 40 if tier == 'quick' else 200
    hists = hist_run.run_histories([seed * 104729 + 17 * k for k in range(n_hist)], max_steps=max_perm_len - 1)
    from . import impl
    # scripted sets every permutation of which is tried: two roReplace messages (the later one wins, whatever the supply
    # order), the same class several times with non-commuting effects, message IDs of different widths
    X = lambda i: B.story(i, [B.item(i + '-1')])
    scripted = [
        ('two roReplace', [B.ro_doc([X('A'), X('B')], message_id='3'), B.ro_replace([X('R1'), X('R2')], message_id='20'), B.story_append([X('N')], message_id='100'),
                           B.ro_replace([X('Q1')], message_id='1000'), B.story_insert('Q1', [X('M')], message_id='1001')]),
        ('three roReplace', [B.ro_doc([X('A')], message_id='1'), B.ro_replace([X('R1')], message_id='9'), B.ro_replace([X('R2'), X('R3')], message_id='10'),
                             B.ro_replace([X('R4')], message_id='11'), B.story_delete(['R4'], message_id='12')]),
        ('deletes and appends interleaved', [B.ro_doc([X('A'), X('B')], message_id='8'), B.story_delete(['N'], message_id='9'), B.story_append([X('N')], message_id='10'),
                                             B.story_delete(['N'], message_id='100'), B.story_append([X('N')], message_id='101')]),
    ]
    for name, trees in scripted:
        mids = [int(TJ.child_text(t, 'messageID')) for t in trees]
        hists.append({'seed': name, 'docs': [TJ.to_text(t) for t in trees], 'ids': mids, 'steps': []})
    two = [B.ro_doc([X('A'), X('B'), X('C')], message_id='5'), B.story_delete(['C'], message_id='10'), B.story_append([X('C')], message_id='100'),
           B.story_delete(['B'], message_id='1000'), B.story_append([X('B')], message_id='9')]
    two_t = [TJ.to_text(t).replace('<ncsID>ncs.test</ncsID>', '<ncsID>%s</ncsID>' % ['ncs.primary', 'ncs.backup', 'NCS.A', 'ncs.primary', 'ncs.backup'][k], 1) for k, t in enumerate(two)]
    hists.append({'seed': 'messages of two senders (different ncsID / mosID)', 'docs': two_t, 'ids': [5, 10, 100, 1000, 9], 'steps': []})
    for hi, h in enumerate(hists):
        docs = h['docs']
        if hi % 2 and not isinstance(h['seed'], str):
            docs = with_create_id(docs, h['ids'], rng) or docs       # roCreate not the lowest message ID
        base = impl_collection(docs, True, False, via='strings')
        expect = (base['err'], base['reader_ids'], base['text'], base['run']['warns'] if base['run'] else None)
        perms = list(itertools.permutations(range(len(docs))))
        if len(perms) > 720:
            perms = [tuple(rng.sample(range(len(docs)), len(docs))) for _ in range(720)]
        reqs, meta = [], []
        for pi, perm in enumerate(perms):
            pdocs = [docs[i] for i in perm]
            via = 'strings' if pi % 7 else ('files' if pi % 2 else 's3')
            keys = None
            if via == 's3':
                # key names unrelated to the ID order
                keys = [f'prefix/{chr(97 + (i * 7) % 26)}{i}.mos.xml' for i in perm]
            o = impl_collection(pdocs, True, False, via=via, keys=keys, listing='supplied' if (via == 's3' and pi % 4 < 2) else 'sorted')
            oc.evaluations += 1
            oc.in_domain += 1
            oc.count(f'via:{via}')
            oc.count(f'n={len(docs)}')
            got = (o['err'], o['reader_ids'], o['text'], o['run']['warns'] if o['run'] else None)
            rec = {'kind': 'collection-perm', 'docs': pdocs, 'via': via, 'keys': keys, 'label': f'hist seed={h["seed"]} perm={perm}'}
            if got != expect:
                oc.failing.append(dict(rec, spec='same result for every ordering of the inputs',
                                       impl={'err': o['err'], 'reader_ids': o['reader_ids']},
                                       expected={'err': base['err'], 'reader_ids': base['reader_ids']}))
            if o['err'] is None and o['reader_ids'] != sorted(o['reader_ids']):
                oc.failing.append(dict(rec, spec='readers in ascending numeric message-ID order',
                                       impl={'reader_ids': o['reader_ids']}))
            if perm != tuple(range(len(docs))):
                hsh = stable_hash([pdocs, via])
                if hsh not in oc.nontrivial:
                    oc.nontrivial.add(hsh)
            if pi < 24 or pi % 29 == 0:
                reqs.append(model_req(pdocs, True, False))
                meta.append((rec, o))
        for (rec, o), m in zip(meta, model_collection(reqs)):
            if obs_key(o) != model_key(m):
                oc.disagreements.append(dict(rec, what='collection outcome', impl=_brief(o), model=_brief_model(m)))
        # sorting MosFile objects
        try:
            objs = [impl.load(t.replace('<roID>RO1</roID>', '<roID>%s</roID>' % ['RO1', 'ro1', 'ZZ', 'AA', 'RO1 '][k % 5], 1) if hi % 3 == 0 else t)
                    for k, t in enumerate(docs)]         # sorting MosFile objects looks at the message ID only
        except Exception as e:  # noqa: BLE001
            oc.disagreements.append({'kind': 'load', 'what': 'a generated document is not classified (the model classifies it)', 'impl': impl.err_name(e)})
            continue
        shuffled = objs[:]
        rng.shuffle(shuffled)
        ids = [m.message_id for m in sorted(shuffled)]
        oc.evaluations += 1
        oc.in_domain += 1
        want = sorted(m.message_id for m in objs)
        ops_ok = ([m.message_id for m in sorted(shuffled, reverse=True)] == want[::-1] and max(shuffled).message_id == want[-1]
                  and min(shuffled).message_id == want[0]
                  and all((a > b) == (a.message_id > b.message_id) and (a >= b) == (a.message_id >= b.message_id)
                          and (a <= b) == (a.message_id <= b.message_id) and (a < b) == (a.message_id < b.message_id)
                          for a in objs[:6] for b in objs[:6]))
        if not ops_ok:
            oc.failing.append({'kind': 'collection-perm', 'docs': docs, 'via': 'sorted(MosFile)', 'label': f'hist seed={h["seed"]} (comparison operators)',
                               'spec': '<, <=, >, >=, max, min and reverse sorting of MosFile objects follow the numeric message ID', 'impl': {'ids': ids}})
        if ids != sorted(m.message_id for m in objs):
            oc.failing.append({'kind': 'collection-perm', 'docs': docs, 'via': 'sorted(MosFile)', 'label': f'hist seed={h["seed"]}',
                               'spec': 'sorted([MosFile…]) orders by numeric message ID', 'impl': {'ids': ids}})
        # ... and the same objects once they have been USED: merged into the running order (which may be completed by
        # then) - the order of MosFile objects is that of their message IDs, whatever state they are in
        try:
            ro_o = [m for m in objs if type(m).__name__ == 'RunningOrder'][0]
            with warnings.catch_warnings():
                warnings.simplefilter('ignore')
                for m in sorted(x for x in objs if x is not ro_o):
                    try:
                        ro_o + m
                    except Exception:  # noqa: BLE001
                        pass
            used = objs[:]
            rng.shuffle(used)
            ids_used = [m.message_id for m in sorted(used)]
            if ids_used != want or min(used).message_id != want[0] or max(used).message_id != want[-1]:
                oc.failing.append({'kind': 'collection-perm', 'docs': docs, 'via': 'sorted(MosFile) after merging', 'label': f'hist seed={h["seed"]} (objects sorted after they were merged)',
                                   'spec': 'sorted / min / max of MosFile objects follow the numeric message ID also after the objects were merged (completed or not)',
                                   'impl': {'ids': ids_used, 'completed': bool(ro_o.completed)}})
        except IndexError:
            pass
        if len(oc.samples) < 3:
            oc.samples.append({'ids': h['ids'], 'n_docs': len(docs), 'permutations': len(perms)})
    # the width grid: every pair (quick) / triple (thorough) of message IDs from a list that straddles every
    # power of ten and of two where a textual or fixed-width comparison would go wrong, in every order
    WIDTHS = [0, 9, 10, 99, 100, 1000, 99999999, 100000000, 123456789, 999999999, 1000000000, 4294967295, 4294967296,
              10 ** 12, 2 ** 63, 10 ** 19 + 1]
    groups = list(itertools.combinations(WIDTHS, 2 if tier == 'quick' else 3))

    def spell(n, k):
        """the same number as Python's int() also accepts it: padded, signed, pretty-printed, with digit separators"""
        s = str(n)
        forms = [s, s, ' ' + s + ' ', '+' + s, '\n      ' + s + '\n    ', '00' + s, (s[:-3] + '_' + s[-3:]) if len(s) > 3 else s, s]
        return forms[k % len(forms)]

    for gi, grp in enumerate(groups):
        # the roCreate sits in the middle (message ID 5 is in no group), every group member is a message
        docs = [TJ.to_text(B.ro_doc([B.story('A')], message_id=spell(5, gi)))]
        ids_ = list(grp)
        docs += [TJ.to_text(B.story_append([B.story(f'N{i}')], message_id=spell(i, gi + k))) for k, i in enumerate(ids_)]
        expect_ids = sorted(ids_)
        for pi, perm in enumerate(itertools.permutations(range(len(docs)))):
            pdocs = [docs[i] for i in perm]
            via = ('strings', 'files', 's3')[(gi + pi) % 3] if (gi + pi) % 4 == 0 else 'strings'
            o = impl_collection(pdocs, True, False, via=via)
            oc.evaluations += 1
            oc.in_domain += 1
            oc.count('width-grid')
            rec = {'kind': 'collection-perm', 'docs': pdocs, 'via': via, 'keys': None, 'label': f'width grid ids={grp} perm={perm}'}
            if o['err'] is not None or o['reader_ids'] != expect_ids:
                oc.failing.append(dict(rec, spec='readers in ascending numeric message-ID order, for every ordering of the inputs',
                                       impl={'err': o['err'], 'reader_ids': o['reader_ids']}, expected={'reader_ids': expect_ids}))
            oc.nontrivial.add(stable_hash([pdocs, via]))
    # equal-sized documents swapped between the same file names (a cache keyed by path, size and time would go stale)
    eq = [TJ.to_text(B.ro_doc([B.story('A')], message_id='10'))] + [TJ.to_text(B.story_append([B.story(f'N{i}')], message_id=str(i))) for i in (11, 12, 13)]
    for perm in itertools.permutations(range(4)):
        pdocs = [eq[i] for i in perm]
        o = impl_collection(pdocs, True, False, via='files')
        oc.evaluations += 1
        oc.in_domain += 1
        oc.count('equal-size-files')
        if o['err'] is not None or o['reader_ids'] != [11, 12, 13]:
            oc.failing.append({'kind': 'collection-perm', 'docs': pdocs, 'via': 'files', 'keys': None, 'label': f'equal-sized documents, same file names, perm={perm}',
                               'spec': 'readers in ascending numeric message-ID order for every ordering of the inputs', 'impl': {'err': o['err'], 'reader_ids': o['reader_ids']}})
    # MosFile objects of related classes: a roReplace (a subclass of the roCreate's class) listed before a lower-ID roCreate
    rr_objs = [impl.load(TJ.to_text(B.ro_replace([B.story('X')], message_id='100'))), impl.load(TJ.to_text(B.ro_doc([B.story('A')], message_id='9'))),
               impl.load(TJ.to_text(B.ro_replace([], message_id='10'))), impl.load(TJ.to_text(B.story_append([], message_id='1000')))]
    for perm in itertools.permutations(range(4)):
        got = [m.message_id for m in sorted([rr_objs[i] for i in perm])]
        oc.evaluations += 1
        oc.in_domain += 1
        if got != [9, 10, 100, 1000] or max(rr_objs[i] for i in perm).message_id != 1000:
            oc.failing.append({'kind': 'collection-perm', 'docs': [str(rr_objs[i]) for i in perm], 'via': 'sorted(MosFile)', 'label': f'roReplace/roCreate objects perm={perm}',
                               'spec': 'sorted([MosFile…]) orders by numeric message ID', 'impl': {'ids': got}})
    # 2100 files supplied in descending and in shuffled order
    nfiles = 2100
    fdocs = [TJ.to_text(B.ro_doc([], message_id='1'))] + [TJ.to_text(B.story_append([B.story(f'N{i}')], message_id=str(i))) for i in range(2, nfiles + 1)]
    for label, order in (('descending', list(reversed(range(nfiles)))), ('shuffled', rng.sample(range(nfiles), nfiles))):
        o = impl_collection([fdocs[i] for i in order], True, False, via='files')
        oc.evaluations += 1
        oc.in_domain += 1
        oc.count('many-files')
        if o['err'] is not None or o['reader_ids'] != list(range(2, nfiles + 1)):
            oc.failing.append({'kind': 'collection-perm', 'docs': [f'({nfiles} generated documents, {label})'], 'via': 'files-many', 'keys': None,
                               'label': f'{nfiles} files supplied {label}', 'spec': 'readers in ascending numeric message-ID order, however many files',
                               'impl': {'err': o['err'], 'first_out_of_order': next((a for a, b in zip(o['reader_ids'], range(2, nfiles + 1)) if a != b), None)}})
    # more than one S3 listing block: 1100 objects whose keys list lexicographically (1, 10, 100, 1000, 1001, ... 11, 110 ...)
    many = list(range(2, 1101))
    mdocs = {1: TJ.to_text(B.ro_doc([], message_id='1'))}
    for i in many:
        mdocs[i] = TJ.to_text(B.story_append([B.story(f'N{i}')], message_id=str(i)))
    order = sorted(mdocs, key=str)                      # how S3 lists unpadded numeric names
    o = impl_collection([mdocs[i] for i in order], True, False, via='s3', keys=[f'prefix/{i}.mos.xml' for i in order], page_size=1000)
    oc.evaluations += 1
    oc.in_domain += 1
    oc.count('many-keys')
    if o['err'] is not None or o['reader_ids'] != many:
        oc.failing.append({'kind': 'collection-perm', 'docs': ['(1100 generated documents: roCreate 1, roStoryAppend 2..1100)'], 'via': 's3-many', 'keys': None,
                           'label': '1100 S3 objects listed lexicographically', 'spec': 'readers in ascending numeric message-ID order, however many keys and pages',
                           'impl': {'err': o['err'], 'first_out_of_order': next((a for a, b in zip(o['reader_ids'], many) if a != b), None)}})
    oc.exhaustive = False
    oc.extra['exhaustive_part'] = 'all permutations of each document list are enumerated (n <= 5 quick / 6 thorough: 720 sampled beyond); the lists themselves are sampled histories'
    oc.rule = ('every permutation (n <= %d) of the documents of small state-aware histories with message IDs of mixed '
               'digit counts, via strings / files / fake S3 keys unrelated to ID order; non-trivial = a non-identity '
               'permutation' % max_perm_len)
    return oc


# ---- collections and completion (C07), readers re-used (C07, C11) -----------------------------------

def collection_stages(docs, strict):
    """A collection over `docs` observed before and after its merge, then a second collection built from
    the SAME reader objects without the roDelete readers (its running order never receives a roDelete)."""
    from . import impl
    from mosromgr.moscollection import MosCollection, MosReader
    has_record = lambda ro: ro.xml.find('mosromgrmeta') is not None
    out = {}
    impl.apply_cfg(impl.cfg_for(''.join(docs) + str(strict)))
    with warnings.catch_warnings():
        warnings.simplefilter('ignore')
        try:
            readers = sorted(MosReader.from_string(t) for t in docs)
            mc = MosCollection(list(readers), allow_incomplete=True)
        except Exception as e:  # noqa: BLE001
            return {'invalid': impl.err_name(e)}
        out['before'] = {'completed': bool(mc.completed), 'record': has_record(mc.ro)}
        try:
            mc.merge(strict=strict)
            out['merge_err'] = None
        except Exception as e:  # noqa: BLE001
            out['merge_err'] = impl.err_name(e)
        out['after'] = {'completed': bool(mc.completed), 'record': has_record(mc.ro), 'ro_completed': bool(mc.ro.completed)}
        # what adding the messages one by one gives: everything after the roDelete is refused and changes nothing
        try:
            hf = hand_fold(docs, strict)
            out['same_as_one_by_one'] = (str(mc.ro) == hf['text'])
        except Exception:  # noqa: BLE001
            out['same_as_one_by_one'] = None
        create_text = next(t for t in docs if TJ.find(TJ.parse(t), 'roCreate') is not None)
        fresh = impl.load(create_text)
        try:
            mc2 = MosCollection([r for r in readers if r.mos_type.__name__ != 'RunningOrderEnd'], allow_incomplete=True)
            out['second'] = {'completed': bool(mc2.completed), 'record': has_record(mc2.ro),
                             'is_the_roCreate': str(mc2.ro) == str(fresh), 'fresh_record': has_record(fresh)}
            try:
                mc2.merge(strict=False)
                out['second']['merge_err'] = None
            except Exception as e:  # noqa: BLE001
                out['second']['merge_err'] = impl.err_name(e)
            out['second']['completed_after'] = bool(mc2.completed)
        except Exception as e:  # noqa: BLE001
            out['second'] = {'invalid': impl.err_name(e)}
    return out


def stage_problems(pid, st):
    bad = []
    if 'invalid' in st:
        return bad
    if pid == 'C07':
        for k in ('before', 'after'):
            if st[k]['completed'] != st[k]['record']:
                bad.append(f"{k} the merge the collection reports completed={st[k]['completed']} but its running order "
                           f"{'has' if st[k]['record'] else 'has no'} completion record")
        if st.get('same_as_one_by_one') is False:
            bad.append('the collection merge differs from adding the messages one by one in message-ID order '
                       '(messages after the roDelete must be refused and change nothing)')
        sec = st['second']
        if 'invalid' not in sec and not sec['fresh_record']:
            if sec['completed'] or sec['record']:
                bad.append('a second collection over the same readers, without the roDelete, starts out completed')
            if sec['merge_err'] is not None or sec['completed_after']:
                bad.append(f"a second collection over the same readers, without the roDelete: merge raised {sec['merge_err']}, completed={sec['completed_after']}")
    if pid == 'C11':
        sec = st['second']
        if 'invalid' not in sec and not sec['is_the_roCreate']:
            bad.append("after acceptance the collection's running order is not the roCreate (readers were used by an earlier collection)")
    return bad


def run_stage_checks(oc, pid, tier, seed):
    n_hist = 40 if tier == 'quick' else 600
    hists = hist_run.run_histories([seed * 2741 + 5 * k for k in range(n_hist)], max_steps=6 if tier == 'quick' else 12)
    for h in hists:
        for strict in (False, True):
            st = collection_stages(h['docs'], strict)
            oc.evaluations += 1
            oc.in_domain += 1
            oc.count('collection-stages')
            bad = stage_problems(pid, st)
            if bad:
                oc.failing.append({'kind': 'collection-stages', 'docs': h['docs'], 'strict': strict, 'label': f'hist seed={h["seed"]} strict={strict}',
                                   'spec': '; '.join(bad), 'impl': st})
            oc.nontrivial.add(stable_hash(['stages', h['docs'], strict]))
    if pid == 'C07':
        completed_collections_check(oc, pid)
        reuse_and_remerge_check(oc, pid)


def completed_collections_check(oc, pid):
    """C07 in collection mode: a collection whose roCreate document is a running order that was completed and written
    out earlier refuses every later message - strict: MosCompletedMergeError at the first one; non-strict: one warning per
    message - and its running order stays as it was; the same for a second merge() of a collection that has completed."""
    done = TJ.to_text(B.ro_doc([B.story('A', [B.item('a1')]), B.story('B', [])], message_id='1')).replace(
        '</mos>', '<mosromgrmeta><roDelete><roID>RO1</roID></roDelete></mosromgrmeta></mos>')
    late = [TJ.to_text(B.story_append([B.story('N')], message_id='5')), TJ.to_text(B.item_delete('A', ['a1'], message_id='6')),
            TJ.to_text(B.ro_replace([B.story('R')], message_id='7')), TJ.to_text(B.ready_to_air(message_id='8')),
            TJ.to_text(B.ro_delete(message_id='9'))]
    for k in (1, 2, len(late)):
        for via in ('strings', 'files'):
            for strict in (False, True):
                docs = [done] + late[:k]
                o = impl_collection(docs, True, strict, via=via)
                oc.evaluations += 1
                oc.in_domain += 1
                oc.count('completed-collection')
                run = o.get('run') or {}
                bad = []
                if o['err'] is not None or not run:
                    bad.append(f'the collection over a completed roCreate document could not be built or merged: {o["err"]}')
                else:
                    if run['ro'] != TJ.parse(done):
                        bad.append('the completed running order was changed by a later message')
                    if strict and run['err'] != 'MosCompletedMergeError':
                        bad.append(f'strict merge of late messages into a completed running order: expected MosCompletedMergeError, got {run["err"]}')
                    if not strict and (run['err'] is not None or run['warns'].count('MosMergeNonStrictWarning') != k):
                        bad.append(f'non-strict merge of {k} late messages: expected {k} MosMergeNonStrictWarning and no error, got {run["warns"]} / {run["err"]}')
                if bad:
                    oc.failing.append({'kind': 'collection-stages', 'docs': docs, 'strict': strict, 'label': f'completed roCreate document + {k} late messages via {via} strict={strict}',
                                       'spec': '; '.join(bad), 'impl': {'err': o['err'], 'run_err': run.get('err'), 'warns': run.get('warns')}})
    # message IDs that tie: the roDelete and a message supplied after it carry the same ID - both are messages of the collection
    tied = [TJ.to_text(B.ro_doc([B.story('A', [B.item('a1')])], message_id='1')), TJ.to_text(B.story_append([B.story('N')], message_id='2')),
            TJ.to_text(B.ro_delete(message_id='7')), TJ.to_text(B.story_append([B.story('LATE')], message_id='7'))]
    for via in ('strings', 'files'):
        for strict in (False, True):
            o = impl_collection(tied, False, strict, via=via)
            oc.evaluations += 1
            oc.in_domain += 1
            oc.count('completed-collection:tied-ids')
            run = o.get('run') or {}
            ids_after = [TJ.child_text(c, 'storyID') for c in (TJ.find(run['ro'], 'roCreate') or [0, 0, 0, 0, []])[4] if c[0] == 'story'] if run else None
            ok = (o['err'] is None and run and TJ.find(run['ro'], 'mosromgrmeta') is not None and ids_after == ['A', 'N'] and
                  ((run['err'] == 'MosCompletedMergeError') if strict else (run['err'] is None and run['warns'].count('MosMergeNonStrictWarning') == 1)))
            if not ok:
                oc.failing.append({'kind': 'collection-stages', 'docs': tied, 'strict': strict, 'label': f'roDelete and a later message share a message ID via {via} strict={strict}',
                                   'spec': 'the roDelete completes the running order and the message after it is refused (MosCompletedMergeError / one warning), whatever their message IDs',
                                   'impl': {'err': o['err'], 'run_err': run.get('err'), 'warns': run.get('warns'), 'stories': ids_after}})
    # one roDelete OBJECT completes every running order it is added to
    from . import impl as _impl
    rd_obj = _impl.load(TJ.to_text(B.ro_delete(message_id='9')))
    for via_ in ('add', 'merge'):
        ros = [_impl.load(TJ.to_text(B.ro_doc([B.story('A', [B.item('a1')])], message_id='1'))) for _ in range(3)]
        states = []
        for r_ in ros:
            o_ = _impl.add(r_, rd_obj, via=via_)
            states.append((o_['err'], bool(r_.completed), str(r_).count('<mosromgrmeta>')))
        oc.evaluations += 1
        oc.in_domain += 1
        oc.count('rodelete-object-reused')
        if states != [(None, True, 1)] * 3:
            oc.failing.append({'kind': 'collection-stages', 'docs': [TJ.to_text(B.ro_delete(message_id='9'))], 'strict': False, 'label': f'one roDelete object added to three running orders ({via_})',
                               'spec': 'merging a roDelete marks the running order completed and records it - for every running order the message object is added to',
                               'impl': states})
    # a collection that has completed, merged again: every message is now late
    from mosromgr.moscollection import MosCollection
    from . import impl
    full = [TJ.to_text(B.ro_doc([B.story('A', [B.item('a1')])], message_id='1')), late[0], late[1], TJ.to_text(B.ro_delete(message_id='9'))]
    for strict in (False, True):
        with warnings.catch_warnings():
            warnings.simplefilter('ignore')
            mc = MosCollection.from_strings(full)
            mc.merge()
        before = str(mc)
        err = None
        with warnings.catch_warnings(record=True) as w:
            warnings.simplefilter('always')
            try:
                mc.merge(strict=strict)
            except Exception as e:  # noqa: BLE001
                err = impl.err_name(e)
        ws = impl.lib_warnings(w)
        oc.evaluations += 1
        oc.in_domain += 1
        oc.count('completed-collection:second-merge')
        ok = (err == 'MosCompletedMergeError') if strict else (err is None and ws.count('MosMergeNonStrictWarning') == 3)
        if not ok or str(mc) != before or not mc.completed:
            oc.failing.append({'kind': 'collection-stages', 'docs': full, 'strict': strict, 'label': f'second merge() of a completed collection strict={strict}',
                               'spec': 'a completed collection merged again refuses every message (MosCompletedMergeError / one warning each) and stays as it is',
                               'impl': {'err': err, 'warns': ws, 'unchanged': str(mc) == before}})


def reuse_and_remerge_check(oc, pid):
    """Order-of-use around collections: one list of readers used for two collections gives the same result twice (a
    reader restores a fresh object every time, a collection keeps nothing on the readers); merge() called again on a
    collection that has completed refuses every message and leaves ONE completion record; a completed, merged running
    order given to a collection as its only document is reported completed."""
    from mosromgr.moscollection import MosCollection, MosReader
    from . import impl
    N = lambda i: B.story(i, [B.item(i + '-1')])
    docs = [TJ.to_text(B.ro_doc([N('A'), N('B')], message_id='1')), TJ.to_text(B.story_append([N('N')], message_id='2')),
            TJ.to_text(B.item_delete('A', ['A-1', 'nowhere'], message_id='3')), TJ.to_text(B.story_insert('nowhere', [N('M')], message_id='4')),
            TJ.to_text(B.story_delete(['B'], message_id='5')), TJ.to_text(B.ro_delete(message_id='9')),
            TJ.to_text(B.story_append([N('LATE1')], message_id='10')), TJ.to_text(B.ready_to_air(message_id='11')), TJ.to_text(B.story_delete(['A'], message_id='12'))]

    def run(mc, strict):
        err = None
        with warnings.catch_warnings(record=True) as w:
            warnings.simplefilter('always')
            try:
                mc.merge(strict=strict)
            except Exception as e:  # noqa: BLE001
                err = impl.err_name(e)
        return {'err': err, 'warns': impl.lib_warnings(w), 'text': str(mc), 'completed': bool(mc.completed),
                'records': str(mc).count('<mosromgrmeta>')}

    for with_late in (False, True):
        for strict in (False, True):
            use = docs if with_late else docs[:6]
            with warnings.catch_warnings():
                warnings.simplefilter('ignore')
                readers = sorted(MosReader.from_string(t) for t in use)
                mc1 = MosCollection(list(readers), allow_incomplete=True)       # (kept alive while the second one works)
                first = run(mc1, strict)
                mc2 = MosCollection(list(readers), allow_incomplete=True)
                second = run(mc2, strict)
                fresh = run(MosCollection.from_strings(list(use), allow_incomplete=True), strict)
                # a reader hands out a NEW object every time it is asked
                a_, b_ = readers[0].mos_object, readers[0].mos_object
                if a_ is b_ or a_.xml is b_.xml or mc1.ro is mc2.ro:
                    second = dict(second, shared_objects=True)
            oc.evaluations += 1
            oc.in_domain += 1
            oc.count('reader-reuse')
            if not (first == second == fresh):
                oc.failing.append({'kind': 'collection-stages', 'docs': use, 'strict': strict, 'label': f'one list of readers, two collections (late messages: {with_late}) strict={strict}',
                                   'spec': 'two collections over the same readers, and one over freshly read documents, merge to the same result with the same errors and warnings',
                                   'impl': {'first': {k: first[k] for k in ('err', 'warns', 'completed', 'records')}, 'second': {k: second[k] for k in ('err', 'warns', 'completed', 'records')},
                                            'fresh': {k: fresh[k] for k in ('err', 'warns', 'completed', 'records')}}})
            # non-strict: every late message is reported, one warning each
            if with_late and not strict and fresh['warns'].count('MosMergeNonStrictWarning') != 1 + 3:
                oc.failing.append({'kind': 'collection-stages', 'docs': use, 'strict': strict, 'label': 'one failing and three late messages, non-strict',
                                   'spec': 'one MosMergeNonStrictWarning per message that could not be merged (1 failing + 3 after the roDelete; the message that only warns is none)', 'impl': fresh['warns']})
    # the same through S3: two objects read from one key, two collections built from the same keys (the first kept alive)
    from mosromgr.mostypes import MosFile
    objs_ = {f'pfx/{i:03d}.mos.xml': t.encode('utf-8') for i, t in enumerate(docs[:6])}
    install_fake_s3(FakeS3(objs_, page_size=3))
    with warnings.catch_warnings():
        warnings.simplefilter('ignore')
        a_, b_ = MosFile.from_s3(bucket_name='b', mos_file_key='pfx/000.mos.xml'), MosFile.from_s3(bucket_name='b', mos_file_key='pfx/000.mos.xml')
        s1 = MosCollection.from_s3(bucket_name='b', prefix='pfx/')
        r1 = run(s1, False)
        s2 = MosCollection.from_s3(bucket_name='b', prefix='pfx/')
        r2 = run(s2, False)
    oc.evaluations += 1
    oc.in_domain += 1
    oc.count('s3-twice')
    shared = a_.xml is b_.xml or bool(set(map(id, a_.xml.iter())) & set(map(id, b_.xml.iter()))) or bool(set(map(id, s1.ro.xml.iter())) & set(map(id, s2.ro.xml.iter())))
    if shared or r1 != r2:
        oc.failing.append({'kind': 'collection-stages', 'docs': docs[:6], 'strict': False, 'label': 'the same S3 keys read twice (two objects, two collections)',
                           'spec': 'objects and collections built twice from the same S3 keys are independent and merge to the same result',
                           'impl': {'shared_elements': shared, 'first': {k: r1[k] for k in ('err', 'warns', 'completed', 'records')}, 'second': {k: r2[k] for k in ('err', 'warns', 'completed', 'records')}}})
    # merge() once more on a collection that has completed
    for strict in (False, True):
        with warnings.catch_warnings():
            warnings.simplefilter('ignore')
            mc = MosCollection.from_strings(docs[:6])
            mc.merge(strict=False)
        before = str(mc)
        again = run(mc, strict)
        oc.evaluations += 1
        oc.in_domain += 1
        oc.count('merge-twice')
        ok = again['text'] == before and again['completed'] and again['records'] == 1 and \
            ((again['err'] == 'MosCompletedMergeError') if strict else (again['err'] is None and again['warns'].count('MosMergeNonStrictWarning') == 5))
        if not ok:
            oc.failing.append({'kind': 'collection-stages', 'docs': docs[:6], 'strict': strict, 'label': f'merge() called again on a completed collection strict={strict}',
                               'spec': 'a completed collection merged again refuses every message, stays as it is and keeps exactly one completion record',
                               'impl': {k: again[k] for k in ('err', 'warns', 'completed', 'records')}, 'unchanged': again['text'] == before})
    # the merged, completed document read back through a collection
    with warnings.catch_warnings():
        warnings.simplefilter('ignore')
        mc = MosCollection.from_strings(docs[:6])
        mc.merge(strict=False)
        text = str(mc)
        for how, mk in (('from_strings', lambda: MosCollection.from_strings([text], allow_incomplete=True)),
                        ('readers', lambda: MosCollection([MosReader.from_string(text)], allow_incomplete=True))):
            back = mk()
            oc.evaluations += 1
            oc.in_domain += 1
            oc.count('collection-readback')
            state = {'completed': bool(back.completed), 'ro_completed': bool(back.ro.completed), 'same': str(back) == text}
            after = run(back, False)
            if state != {'completed': True, 'ro_completed': True, 'same': True} or after['text'] != text or not after['completed']:
                oc.failing.append({'kind': 'collection-stages', 'docs': [text], 'strict': False, 'label': f'a completed running order read back through a collection ({how})',
                                   'spec': 'a completed running order written out and read back - also as the document of a collection - is still completed and identical',
                                   'impl': dict(state, after_merge={k: after[k] for k in ('err', 'completed', 'records')})})


# ---- C11 ------------------------------------------------------------------------------------------

def c11_lists(tier):
    """All multisets: roCreates x roDeletes x others x running-order IDs x allow_incomplete."""
    mx = 2 if tier == 'quick' else 3
    out = []
    for nc in range(0, mx + 1):
        for nd in range(0, mx + 1):
            for no in range(0, 3):
                kinds = ['C'] * nc + ['D'] * nd + ['O'] * no
                n = len(kinds)
                roid_variants = [('same', ['RO1'] * n)]
                if n >= 2:
                    roid_variants.append(('last-differs', ['RO1'] * (n - 1) + ['RO2']))
                    roid_variants.append(('first-differs', ['RO2'] + ['RO1'] * (n - 1)))
                    roid_variants.append(('creates-differ', ['RO2' if k == 'C' else 'RO1' for k in kinds]))
                    roid_variants.append(('last-padded', ['RO1'] * (n - 1) + ['RO1 ']))     # IDs are opaque: 'RO1 ' is not 'RO1'
                    roid_variants.append(('first-newline', ['RO1\n'] + ['RO1'] * (n - 1)))
                    roid_variants.append(('case-differs', ['RO1'] * (n - 1) + ['ro1']))
                if n >= 1:
                    # IDs that mean something to %-formatting and str.format: opaque strings like any other
                    roid_variants.append(('percent', ['NEWS%20AT%20TEN'] * n))
                    roid_variants.append(('percent-s', ['A%sB {0}'] * n))
                    roid_variants.append(('last-blank', ['RO1'] * (n - 1) + [None]))        # an empty <roID/> is an ID of its own
                    roid_variants.append(('first-blank', [None] + ['RO1'] * (n - 1)))
                    roid_variants.append(('all-blank', [None] * n))
                for label, roids in roid_variants:
                  for idmode in ('distinct', 'all-same', 'first-create-completed'):
                    if idmode == 'all-same' and n < 2:
                        continue
                    if idmode == 'first-create-completed' and nc == 0:
                        continue
                    for order in ('create-first', 'create-last', 'create-middle'):
                        ks = kinds if order == 'create-first' else list(reversed(kinds))
                        if order == 'create-middle':
                            ks = kinds[nc:nc + (n - nc) // 2] + kinds[:nc] + kinds[nc + (n - nc) // 2:]
                        if label == 'creates-differ':
                            roids = ['RO2' if k == 'C' else 'RO1' for k in ks]
                        docs = []
                        for i, (k, rid) in enumerate(zip(ks, roids)):
                            # all-same: every message carries one message ID (documents of one kind are then byte-identical)
                            mid = '8' if idmode == 'all-same' else str(8 + 3 * i)
                            if k == 'C':
                                t = TJ.to_text(B.ro_doc([B.story('A')], message_id=mid, ro_id=rid, slug=['RO slug', None, 'RO slug'][i % 3]))
                                if i % 3 == 2:
                                    t = t.replace('<roSlug>RO slug</roSlug>', '', 1)          # a roCreate without any roSlug
                                if idmode == 'first-create-completed' and 'roCreate' not in ''.join(docs):
                                    # a roCreate document that was completed and saved earlier is still a roCreate
                                    t = t.replace('</mos>', '<mosromgrmeta><roDelete><roID>x</roID></roDelete></mosromgrmeta></mos>')
                                docs.append(t)
                            elif k == 'D':
                                docs.append(TJ.to_text(B.ro_delete(message_id=mid, ro_id=rid)))
                            else:
                                docs.append(TJ.to_text([B.ready_to_air(message_id=mid, ro_id=rid),
                                                        B.story_append([B.story(f'N{i}')], message_id=mid, ro_id=rid),
                                                        B.ro_replace([B.story(f'R{i}')], message_id=mid, ro_id=rid)][(i + no + nd) % 3]))
                        for allow in (False, True):
                            out.append({'docs': docs, 'allow': allow,
                                        'label': f'creates={nc} deletes={nd} others={no} roids={label} ids={idmode} {order} allow={allow}'})
    return out


def kind_of_text(text):
    """Class name read neutrally from the message element (the generator only emits these)."""
    t = TJ.parse(text)
    for tag, name in (('roCreate', 'RunningOrder'), ('roDelete', 'RunningOrderEnd'), ('roReadyToAir', 'ReadyToAir'),
                      ('roStoryAppend', 'StoryAppend'), ('roReplace', 'RunningOrderReplace')):
        if TJ.find(t, tag) is not None:
            return name
    return '?'


def c11_good(docs, accept, obs):
    good = (obs['err'] is None) if accept else (obs['err'] == 'InvalidMosCollection')
    if accept and obs['err'] is None:
        # the collection's running order is that roCreate; the remaining readers are exactly the other messages
        others = sorted((int(TJ.child_text(TJ.parse(t), 'messageID')), kind_of_text(t)) for t in docs
                        if kind_of_text(t) != 'RunningOrder')
        creates = [int(TJ.child_text(TJ.parse(t), 'messageID')) for t in docs if kind_of_text(t) == 'RunningOrder']
        good = (good and obs['ro_type'] == 'RunningOrder' and [obs['ro_msg_id']] == creates
                and sorted(zip(obs['reader_ids'], obs['reader_types'])) == others
                and obs['reader_ids'] == sorted(obs['reader_ids']))
    return good


def validate_obs(docs, allow):
    """Observation of MosCollection.from_strings under the current interpreter flags."""
    from . import impl
    from mosromgr.moscollection import MosCollection
    impl.apply_cfg(impl.cfg_for(''.join(docs) + str(allow)))
    try:
        with warnings.catch_warnings():
            warnings.simplefilter('ignore')
            mc = MosCollection.from_strings(list(docs), allow_incomplete=allow)
        return {'err': None, 'ro_msg_id': mc.ro.message_id, 'reader_ids': [mr.message_id for mr in mc.mos_readers],
                'reader_types': [mr.mos_type.__name__ for mr in mc.mos_readers], 'ro_type': type(mc.ro).__name__}
    except Exception as e:  # noqa: BLE001
        return {'err': impl.err_name(e), 'ro_msg_id': None, 'reader_ids': []}


def run_sub(flags, cases):
    """Run validate_obs over `cases` in a fresh interpreter with the given flags (e.g. ['-O'])."""
    tmp = tempfile.mkdtemp(prefix='mrm-sub-')
    try:
        inp, outp = os.path.join(tmp, 'in.json'), os.path.join(tmp, 'out.json')
        with open(inp, 'w') as f:
            json.dump(cases, f)
        env = dict(os.environ, PYTHONPATH=VERIF, PYTHONDONTWRITEBYTECODE='1')
        p = subprocess.run([sys.executable] + flags + ['-m', 'harness.sub_validate', inp, outp], cwd=VERIF, env=env,
                           stdout=subprocess.PIPE, stderr=subprocess.STDOUT, text=True, timeout=1200)
        if p.returncode != 0:
            from .lean import InfraError
            raise InfraError('sub-interpreter failed: ' + p.stdout[-1500:])
        with open(outp) as f:
            return json.load(f)
    finally:
        shutil.rmtree(tmp, ignore_errors=True)


def run_c11(tier, seed):
    from . import impl
    oc = Outcome('C11')
    cases = c11_lists(tier)
    reqs = [model_req(c['docs'], c['allow'], True) for c in cases]
    models = model_collection(reqs)
    default = [validate_obs(c['docs'], c['allow']) for c in cases]
    opt = run_sub(['-O'], [{'docs': c['docs'], 'allow': c['allow']} for c in cases])
    assert opt['optimize'] == 1, opt
    for c, m, d, o in zip(cases, models, default, opt['results']):
        oc.evaluations += 2
        oc.in_domain += 2
        rec = {'kind': 'validate', 'docs': c['docs'], 'allow_incomplete': c['allow'], 'label': c['label']}
        accept = m['spec_accepts']
        oc.count('spec-accepts' if accept else 'spec-rejects')
        for flag, obs in (('default', d), ('-O', o)):
            model_obs = {'err': m['err'], 'ro_msg_id': m['ro_msg_id'], 'reader_ids': m['reader_ids']}
            if {k: obs.get(k) for k in model_obs} != model_obs:
                oc.disagreements.append(dict(rec, what=f'validation outcome under {flag}', impl=obs, model=model_obs))
            good = c11_good(c['docs'], accept, obs)
            if not good:
                oc.failing.append(dict(rec, spec='accepted exactly when it describes one running order; rejection is '
                                       'InvalidMosCollection; not weakened by -O', interpreter=flag, impl=obs,
                                       spec_accepts=accept))
        h = stable_hash([c['docs'], c['allow']])
        oc.nontrivial.add(h)
        if len(oc.samples) < 4 and len(oc.nontrivial) % 37 == 1:
            oc.samples.append({'label': c['label'], 'default': d, 'optimized': o, 'spec_accepts': accept})
    # the same lists as FILES, always under the same few names in one directory (rewritten for every list) and named
    # the ways a caller names files - bare, ./relative, absolute, dot-files: validation sees the current contents
    tmp = tempfile.mkdtemp(prefix='mrm-c11-')
    cwd0 = os.getcwd()
    try:
        os.chdir(tmp)
        for k, (c, d) in enumerate(zip(cases, default)):
            if k % 5:
                continue
            names = [['f%d.mos.xml', './f%d.mos.xml', os.path.join(tmp, 'f%d.mos.xml'), '.f%d.mos.xml', '../' + os.path.basename(tmp) + '/f%d.mos.xml',
                      'Newsnight [2021-01-01] %d.mos.xml', 'ro*Create[%d]?.mos.xml'][(k // 5 + j) % 7] % j
                     for j in range(len(c['docs']))]
            for nme, t in zip(names, c['docs']):
                with open(nme, 'w', encoding='utf-8') as f:
                    f.write(t)
            impl.apply_cfg(impl.cfg_for(''.join(c['docs']) + ''.join(names[:1])))
            try:
                with warnings.catch_warnings():
                    warnings.simplefilter('ignore')
                    from mosromgr.moscollection import MosCollection
                    mc = MosCollection.from_files(names, allow_incomplete=c['allow'])
                fo = {'err': None, 'ro_msg_id': mc.ro.message_id, 'reader_ids': [mr.message_id for mr in mc.mos_readers],
                      'reader_types': [mr.mos_type.__name__ for mr in mc.mos_readers], 'ro_type': type(mc.ro).__name__}
            except Exception as e:  # noqa: BLE001
                fo = {'err': impl.err_name(e), 'ro_msg_id': None, 'reader_ids': []}
            oc.evaluations += 1
            oc.in_domain += 1
            oc.count('as-files')
            if fo != d:
                oc.failing.append({'kind': 'validate', 'docs': c['docs'], 'allow_incomplete': c['allow'], 'label': c['label'] + ' (as files ' + ', '.join(names[:3]) + ')',
                                   'as_files': names, 'spec': 'the same list supplied as files is accepted / rejected like the list of strings',
                                   'impl': {'files': fo, 'strings': d}})
    finally:
        os.chdir(cwd0)
        shutil.rmtree(tmp, ignore_errors=True)
    # the same lists as S3 objects found with prefix None, '' and a real prefix
    for k, (c, d) in enumerate(zip(cases, default)):
        if k % 9 or not c['docs']:
            continue
        for prefix, keypfx in ((None, ''), ('', ''), ('pfx/', 'pfx/'), ('pfx/sub', 'pfx/sub-')):
            # (key names with further dots in them - dates, times, revisions - are ordinary names ending in the suffix)
            objs = {f'{keypfx}{j:03d}{["", ".rev1.2", "-2021-03-04T17.00.00", ".v2"][(k // 9 + j) % 4]}.mos.xml': doc_bytes(t) for j, t in enumerate(c['docs'])}
            install_fake_s3(FakeS3(objs, page_size=2))
            impl.apply_cfg(impl.cfg_for(''.join(c['docs']) + repr(prefix)))
            try:
                with warnings.catch_warnings():
                    warnings.simplefilter('ignore')
                    from mosromgr.moscollection import MosCollection
                    mc = MosCollection.from_s3(bucket_name='b', prefix=prefix, allow_incomplete=c['allow'])
                so = {'err': None, 'ro_msg_id': mc.ro.message_id, 'reader_ids': [mr.message_id for mr in mc.mos_readers],
                      'reader_types': [mr.mos_type.__name__ for mr in mc.mos_readers], 'ro_type': type(mc.ro).__name__}
            except Exception as e:  # noqa: BLE001
                so = {'err': impl.err_name(e), 'ro_msg_id': None, 'reader_ids': []}
            oc.evaluations += 1
            oc.in_domain += 1
            oc.count('as-s3')
            if so != d:
                oc.failing.append({'kind': 'validate', 'docs': c['docs'], 'allow_incomplete': c['allow'], 'label': c['label'] + f' (as S3 objects, prefix={prefix!r})',
                                   'spec': 'the same list found in a bucket is accepted / rejected like the list of strings', 'impl': {'s3': so, 'strings': d}})
    run_stage_checks(oc, 'C11', tier, seed)
    oc.exhaustive = True
    oc.extra['interpreters'] = ['default', 'python -O (fresh subprocess, sys.flags.optimize == 1 checked)']
    oc.rule = ('all multisets of 0..%d roCreates x 0..%d roDeletes x 0..2 others x {one roID, last differs, first differs} '
               'x {roCreate first, last} x allow_incomplete, each under the default interpreter and under python -O; '
               'every list counts as non-trivial (distinct by hash)' % ((2, 2) if tier == 'quick' else (3, 3)))
    return oc


# ---- replay ----------------------------------------------------------------------------------------

def replay(pid, fl):
    kind = fl['kind']
    if kind == 'collection':
        o = impl_collection(fl['docs'], fl['allow_incomplete'], fl['strict'], via=fl.get('via', 'strings'))
        m = model_collection([model_req(fl['docs'], fl['allow_incomplete'], fl['strict'])])[0]
        bad = obs_key(o) != model_key(m)
        if o['err'] is None:
            hf = hand_fold(fl['docs'], fl['strict'])
            bad = bad or not (o['text'] == hf['text'] and o['run']['err'] == hf['err'] and o['run']['warns'] == hf['warns'])
        print(json.dumps({'impl': _brief(o), 'model': _brief_model(m)}, indent=1, ensure_ascii=False)[:3000])
    elif kind == 'collection-perm':
        docs = fl['docs']
        if fl.get('via') == 'sorted(MosFile)':
            from . import impl
            objs = [impl.load(t) for t in docs]
            ids = [m.message_id for m in sorted(reversed(objs))]
            bad = ids != sorted(ids)
            print({'sorted_ids': ids})
        else:
            o = impl_collection(docs, True, False, via=fl.get('via', 'strings'), keys=fl.get('keys'))
            texts_sorted = sorted(docs, key=lambda t: int(TJ.child_text(TJ.parse(t), 'messageID')))
            base = impl_collection(texts_sorted, True, False, via='strings')
            bad = (o['err'], o['reader_ids'], o['text']) != (base['err'], base['reader_ids'], base['text']) or \
                  (o['err'] is None and o['reader_ids'] != sorted(o['reader_ids']))
            print(json.dumps({'impl': _brief(o), 'sorted_order': _brief(base)}, indent=1, ensure_ascii=False)[:3000])
    elif kind == 'collection-stages':
        st = collection_stages(fl['docs'], fl['strict'])
        probs = stage_problems(pid, st)
        print(json.dumps({'stages': st, 'problems': probs}, indent=1)[:3000])
        bad = bool(probs)
    elif kind == 'validate':
        m = model_collection([model_req(fl['docs'], fl['allow_incomplete'], True)])[0]
        d = validate_obs(fl['docs'], fl['allow_incomplete'])
        o = run_sub(['-O'], [{'docs': fl['docs'], 'allow': fl['allow_incomplete']}])['results'][0]
        accept = m['spec_accepts']
        bad = False
        for obs in (d, o):
            bad = bad or not c11_good(fl['docs'], accept, obs)
        print(json.dumps({'default': d, 'optimized': o, 'spec_accepts': accept}, indent=1))
    else:
        print('unknown replay kind', kind)
        return 2
    if bad:
        print(f'VIOLATION property={pid} replay=(this file): still fails on the current tree')
        return 1
    print(f'{pid}: the recorded input no longer fails on the current tree')
    return 0
