"""Correspondence run for C20 (what the message objects expose; inspect())."""
import contextlib
import io
import os
import json
import random
import warnings

from .treejson import E  # noqa: E402
from . import build as B, gen_fuzz, gen_hist, gen_pos, treejson as TJ
from .core import Outcome, stable_hash

ONE, MANY = 'one', 'many'
ACCESSORS = {
    'StorySend': [('story', ONE)], 'StoryAppend': [('stories', MANY)], 'StoryDelete': [('stories', MANY)],
    'StoryInsert': [('target_story', ONE), ('source_stories', MANY)],
    'StoryMove': [('source_story', ONE), ('target_story', ONE)],
    'StoryReplace': [('story', ONE), ('stories', MANY)], 'ItemDelete': [('story', ONE), ('items', MANY)],
    'ItemInsert': [('story', ONE), ('item', ONE), ('items', MANY)],
    'ItemMoveMultiple': [('story', ONE), ('item', ONE), ('items', MANY)],
    'ItemReplace': [('story', ONE), ('item', ONE), ('items', MANY)],
    'EAStoryReplace': [('story', ONE), ('stories', MANY)], 'EAItemReplace': [('story', ONE), ('item', ONE), ('items', MANY)],
    'EAStoryDelete': [('stories', MANY)], 'EAItemDelete': [('story', ONE), ('items', MANY)],
    'EAStoryInsert': [('story', ONE), ('stories', MANY)], 'EAItemInsert': [('story', ONE), ('item', ONE), ('items', MANY)],
    'EAStorySwap': [('stories', MANY)], 'EAItemSwap': [('story', ONE), ('items', MANY)],
    'EAStoryMove': [('story', ONE), ('stories', MANY)], 'EAItemMove': [('story', ONE), ('item', ONE), ('items', MANY)],
}
# which list accessor exposes carried elements, and where they sit in the message
CARRIED = {'StoryAppend': ('stories', None, 'story'), 'StoryInsert': ('source_stories', None, 'story'),
           'StoryReplace': ('stories', None, 'story'), 'ItemInsert': ('items', None, 'item'),
           'ItemReplace': ('items', None, 'item'), 'EAStoryReplace': ('stories', 'element_source', 'story'),
           'EAItemReplace': ('items', 'element_source', 'item'), 'EAStoryInsert': ('stories', 'element_source', 'story'),
           'EAItemInsert': ('items', 'element_source', 'item')}


def observe(text, ro_text=None):
    """Accessors and inspect() of the real message object built from `text`; with `ro_text`, the same
    object is then merged (twice) into that running order and read again: what a message exposes does not
    depend on whether it has been merged."""
    from . import impl
    impl.apply_cfg(impl.cfg_for(text))
    mo = impl.load(text)
    out = read_object(mo)
    if ro_text is not None:
        try:
            ro = impl.load(ro_text)
        except Exception:  # noqa: BLE001
            return out
        changed = []
        for n in (1, 2):
            impl.add(ro, mo)
            if n == 1:
                # later messages edit what this one carried in (items added to / removed from every story of the
                # running order, metadata replaced): the message object must not notice
                for sid, iids in _story_items(ro):
                    if sid is None:
                        continue
                    for edit in ([B.item_insert(sid, B.BLANK, [B.item('later-item')])] +
                                 ([B.item_delete(sid, [iids[0]])] if iids and iids[0] is not None else [])):
                        try:
                            impl.add(ro, impl.load(TJ.to_text(edit)))
                        except Exception:  # noqa: BLE001
                            pass
            again = read_object(mo)
            if again != out:
                changed.append({'after_merges': n, 'exposed': again['exposed'], 'lines': again['lines']})
                break
        out['after_merge'] = changed
    return out


def _story_items(ro):
    rc = ro.xml.find('roCreate')
    if rc is None:
        return []
    return [(s.findtext('storyID') or None, [i.findtext('itemID') or None for i in s.findall('item')]) for s in rc.findall('story')]


class _Tty(io.StringIO):
    def isatty(self):
        return True

    def fileno(self):
        raise OSError('not a real file')


os.environ.setdefault('COLUMNS', '80')


def read_object(mo):
    from . import impl
    cls = type(mo).__name__
    out = {'cls': cls}
    acc = []
    carried = None
    try:
        for name, kind in ACCESSORS.get(cls, []):
            v = getattr(mo, name)
            if kind == ONE:
                acc.append([name, 'absent' if v is None else {'one': v.id}])
            else:
                acc.append([name, {'many': [x.id for x in v]}])
                if cls in CARRIED and CARRIED[cls][0] == name:
                    carried = [TJ.to_tree(x.xml) for x in v]
        out['exposed'] = {'ok': acc}
    except Exception as e:  # noqa: BLE001
        out['exposed'] = {'crash': impl.err_name(e).replace('crash:', '')}
    out['carried'] = carried
    out['carried_views'] = None
    if carried is not None:
        # "carried stories / items are exposed with their content": what the element objects answer, not only their XML
        try:
            from .access_family import item_view
            lst = getattr(mo, CARRIED[cls][0])
            if CARRIED[cls][2] == 'item':
                out['carried_views'] = {'ok': [item_view(x) for x in lst]}
            else:
                out['carried_views'] = {'ok': [{'id': x.id, 'slug': x.slug, 'items': [item_view(i) for i in (x.items or [])]} for x in lst]}
        except Exception as e:  # noqa: BLE001
            out['carried_views'] = {'crash': impl.err_name(e).replace('crash:', '')}
    try:
        out['own_document'] = stable_hash(str(mo))       # what the message object itself holds (it must not change by being merged)
    except Exception as e:  # noqa: BLE001
        out['own_document'] = 'str() raised ' + type(e).__name__
    buf = io.StringIO()
    import zlib
    from xml.etree import ElementTree as _ET
    if zlib.crc32(_ET.tostring(mo.xml)) % 2:
        buf = _Tty()                 # what inspect() prints does not depend on whether stdout is a terminal
    try:
        with contextlib.redirect_stdout(buf), warnings.catch_warnings():
            warnings.simplefilter('ignore')
            mo.inspect()
        out['lines'] = {'ok': buf.getvalue()}
    except Exception as e:  # noqa: BLE001
        out['lines'] = {'crash': impl.err_name(e).replace('crash:', '')}
    # a host without a standard output (sys.stdout is None: pythonw, embedded interpreters): print() is a no-op there
    # and inspect() must be one too
    if 'ok' in out['lines']:
        try:
            with contextlib.redirect_stdout(None), warnings.catch_warnings():
                warnings.simplefilter('ignore')
                mo.inspect()
        except Exception as e:  # noqa: BLE001
            out['lines'] = {'crash': 'without stdout: ' + impl.err_name(e).replace('crash:', '')}
    return out


def expected_carried(cls, msg_tree):
    name, holder, tag = CARRIED[cls]
    base = [c for c in msg_tree[4] if c[0].startswith('ro')][-1] if False else None
    for c in msg_tree[4]:
        if c[0] in ('roStoryAppend', 'roStoryInsert', 'roStoryReplace', 'roItemInsert', 'roItemReplace', 'roElementAction'):
            base = c
            break
    if base is None:
        return None
    if holder:
        base = TJ.find(base, holder)
        if base is None:
            return []
    return TJ.findall(base, tag)


def pretty(t, depth=0):
    """Indent a JSON tree like a pretty-printed MOS file (whitespace text and tails)."""
    t = [t[0], t[1], t[2], t[3], [pretty(c, depth + 1) for c in t[4]]]
    if t[4]:
        if t[2] is None:
            t[2] = '\n' + '  ' * (depth + 1)
        for c in t[4][:-1]:
            if c[3] is None:
                c[3] = '\n' + '  ' * (depth + 1)
        if t[4][-1][3] is None:
            t[4][-1][3] = '\n' + '  ' * depth
    return t


def messages(tier, seed):
    """Message documents: every message of the G-pos scope (compact and pretty-printed), plus the
    messages of random histories."""
    seen = set()
    out = []
    src = list(gen_pos.story_cases(ns=(3,), patterns=('lead',), max_src=3 if tier != 'quick' else 2))
    src += list(gen_pos.item_cases(ms=(3,), item_patterns=('plain',), positions=(0,), max_src=3 if tier != 'quick' else 2))
    src += list(gen_pos.other_cases())
    for c in src:
        for variant, tree in (('compact', c['msg']), ('pretty', pretty(c['msg']))):
            text = TJ.to_text(tree)
            if text in seen:
                continue
            seen.add(text)
            out.append((f'{c["label"]}|{variant}', text, TJ.to_text(c['ro'])))
    # every class once more with IDs that contain commas, dots, blanks, quotes (the short-ID idiom of __repr__ must not
    # leak into what a message exposes or prints)
    ids0 = ['OM_4.15529413,4.15529413.1', 'OM_4.15529413,4.15529413.2', 'a,b,c', "O'NEILL, x", ' padded ', 'x,']
    ids0[2] = 'ENPS;P_NEWSROOM\\W\\F_RUNDOWNS\\R_2021-03-04 0600 BULLETIN;' + 'A1B2C3D4-' * 12 + 'long'      # longer than a terminal line and than any 128-character field limit
    ids0[3] = 'ENPS;P_NEWSROOM\\W\\F_RUNDOWNS\\R_2021-03-04 0600 BULLETIN;' + 'A1B2C3D4-' * 12 + 'long2'
    # ... and with IDs that mean something to str.format, %-formatting, f-string re-use, paths and regular expressions
    id_sets = [ids0, ['{0}', '{guid}', '{3F2504E0-4F89-11D3-9A0C-0305E82C3301}', 'a{b}c}', '{', '}{'],
               ['%s', '%(id)s', '100%', '%d items', '%%', '%'], ['a\\b', 'C:\\temp\\x', '(a|b)*', '[a-z]+$', '^.$', '\\1']]
    for ids in id_sets:
        A, Bb, C, Dd = ids[2], ids[3], ids[0], ids[1]
        sp_ro = TJ.to_text(B.ro_doc([B.story(A, [B.item(A), B.item(Bb), B.item(C)]), B.story(Bb, [B.item(A)]), B.story(C, []), B.story(Dd, [])]))
        sp = [('StorySend', B.story_send(A, [B.p('x')])), ('StoryAppend', B.story_append([B.story(ids[4], []), B.story(ids[5], [])])),
              ('StoryDelete', B.story_delete([A, C, Bb])), ('StoryInsert', B.story_insert(Bb, [B.story(ids[4], []), B.story(ids[5], [])])),
              ('StoryMove', B.story_move([C, A])), ('StoryReplace', B.story_replace(C, [B.story(ids[4], [])])),
              ('ItemDelete', B.item_delete(A, [Bb, A])), ('ItemInsert', B.item_insert(A, Bb, [B.item(ids[4]), B.item(ids[5])])),
              ('ItemMoveMultiple', B.item_move_multiple(A, [C, Bb, A])), ('ItemReplace', B.item_replace(A, Bb, [B.item(ids[4])])),
              ('EAStoryReplace', B.ea('REPLACE', {'storyID': C}, [[B.story(ids[4], [])]])), ('EAItemReplace', B.ea('REPLACE', {'storyID': A, 'itemID': Bb}, [[B.item(ids[4])]])),
              ('EAStoryDelete', B.ea('DELETE', B.ABSENT, [B.ids('storyID', [A, C])])), ('EAItemDelete', B.ea('DELETE', {'storyID': A}, [B.ids('itemID', [Bb, A])])),
              ('EAStoryInsert', B.ea('INSERT', {'storyID': Bb}, [[B.story(ids[5], [])]])), ('EAItemInsert', B.ea('INSERT', {'storyID': A, 'itemID': C}, [[B.item(ids[5])]])),
              ('EAStorySwap', B.ea('SWAP', B.ABSENT, [B.ids('storyID', [A, Bb])])), ('EAItemSwap', B.ea('SWAP', {'storyID': A}, [B.ids('itemID', [A, Bb])])),
              ('EAStoryMove', B.ea('MOVE', {'storyID': A}, [B.ids('storyID', [C, Bb])])), ('EAItemMove', B.ea('MOVE', {'storyID': A, 'itemID': A}, [B.ids('itemID', [C, Bb])]))]
        for cls, m in sp:
            for variant, tree in (('compact', m), ('pretty', pretty(m))):
                out.append((f'special IDs {cls}|{variant}', TJ.to_text(tree), sp_ro))
    rng = random.Random(seed * 17 + 9)
    g = gen_hist.Gen(rng)
    state = TJ.canon(g.ro(4))
    for k in range(300 if tier == 'quick' else 30000):
        cls, msg = gen_hist.random_message(g, state, 100 + k)
        text = TJ.to_text(pretty(msg) if k % 2 else msg)
        out.append((f'random {cls} #{k}', text, TJ.to_text(state)))
    # header fields sent EMPTY (an optional leaf tag with no text), alone and among filled ones
    for k_, ch in enumerate(([E('roTrigger')], [E('roSlug', text='s'), E('roEdStart'), E('roTrigger', text='t')], [E('macroRoIn', text=''), E('roChannel', attrs={'feed': 'b'})],
                             [B.timing_md(duration='5'), E('roEdDur')])):
        for variant, tree in (('compact', B.metadata_replace(ch)), ('pretty', pretty(B.metadata_replace(ch)))):
            out.append((f'roMetadataReplace with empty leaf tags #{k_}|{variant}', TJ.to_text(tree), None))
        rr_ = B.ro_replace([B.story('A', [])], message_id='9')
        TJ.find(rr_, 'roReplace')[4][2:2] = [list(c) for c in ch]
        out.append((f'roReplace with empty leaf tags #{k_}', TJ.to_text(rr_), None))
    # running-order documents are messages too (roCreate): inspect() lists the stories whatever their timing metadata says
    gj = gen_hist.Gen(random.Random(seed * 29 + 3), corner_durations=True)
    for k in range(12 if tier == 'quick' else 300):
        out.append((f'running order document #{k}', TJ.to_text(gj.ro(1 + k % 4)), None))
    for d in ('00:01:30', 'junk', 'nan', '', '5'):
        for st_ in ('2021-03-04T09:00:00', 'tomorrow-ish', None):
            doc = B.ro_doc([B.story('A', [B.item('a1')], md=B.timing_md(duration=d)), B.story('B', [])], message_id='1', ed_start=st_)
            out.append((f'running order document, duration {d!r}, start {st_!r}', TJ.to_text(doc), None))
            # ... and the same content arriving as a roReplace (a RunningOrder subclass with its own inspect())
            rr = B.ro_replace([B.story('A', [B.item('a1')], md=B.timing_md(duration=d)), B.story('B', [])], message_id='9', ed_start=st_)
            out.append((f'roReplace, duration {d!r}, start {st_!r}', TJ.to_text(rr), None))
    frng = random.Random(seed * 23 + 1)
    for lbl, text, ro_text in list(out):
        if frng.random() < (0.4 if tier == 'quick' else 2.0):
            try:
                m = gen_fuzz.mutate(frng, TJ.parse(text))
                out.append(('fuzz|' + lbl, TJ.to_text(m), ro_text))
            except Exception:  # noqa: BLE001
                pass
    return out


def sources_check(oc):
    """What a message exposes is what ITS document names, whichever way the document came in: as bytes in another
    declared encoding, and as an S3 object - also when the object under that key has been replaced since the last read."""
    import warnings
    from . import impl, coll_family
    from mosromgr.mostypes import MosFile
    docs = [B.item_delete('caf\u00e9-1', ['\u00e9-a', '\u00e8-b']), B.story_move(['\u00d61', '\u00dc1']), B.ea('MOVE', {'storyID': 'Stra\u00dfe'}, [B.ids('storyID', ['\u00c5', 'A\u030a'])]),
            B.story_insert('M\u00fcnchen', [B.story('Z\u00fcrich', [B.item('\u00fc1')])]), B.item_replace('S', 'i', [B.item('\u00f1')])]
    for k, tree in enumerate(docs):
        body = TJ.to_text(tree)
        want = read_object(impl.load(body))
        routes = {}
        for enc, decl in (('iso-8859-1', '<?xml version="1.0" encoding="ISO-8859-1"?>'), ('utf-16', '<?xml version="1.0" encoding="UTF-16"?>'), ('utf-8', '')):
            try:
                raw = (decl + body).encode(enc)
            except UnicodeEncodeError:
                continue
            coll_family.install_fake_s3(coll_family.FakeS3({'k/msg.mos.xml': raw}))
            for name, mk in ((f'bytes {enc}', lambda raw=raw: MosFile.from_string(raw)), (f'bytearray {enc}', lambda raw=raw: MosFile.from_string(bytearray(raw))),
                             (f's3 {enc}', lambda: MosFile.from_s3(bucket_name='b', mos_file_key='k/msg.mos.xml'))):
                try:
                    with warnings.catch_warnings():
                        warnings.simplefilter('ignore')
                        routes[name] = read_object(mk())
                except Exception as e:  # noqa: BLE001
                    routes[name] = {'crash': impl.err_name(e)}
        # the same key again after the object was replaced by another message
        other = TJ.to_text(docs[(k + 1) % len(docs)])
        coll_family.install_fake_s3(coll_family.FakeS3({'k/msg.mos.xml': other.encode('utf-8')}))
        try:
            with warnings.catch_warnings():
                warnings.simplefilter('ignore')
                again = read_object(MosFile.from_s3(bucket_name='b', mos_file_key='k/msg.mos.xml'))
        except Exception as e:  # noqa: BLE001
            again = {'crash': impl.err_name(e)}
        want_other = read_object(impl.load(other))
        for name, got in list(routes.items()) + [('s3, object replaced under the same key', again)]:
            exp = want_other if name.startswith('s3, object replaced') else want
            oc.evaluations += 1
            oc.in_domain += 1
            oc.count('sources')
            if got != exp:
                oc.failing.append({'kind': 'elements-sources', 'text': body, 'label': f'{type(impl.load(body)).__name__} through {name}',
                                   'spec': 'the exposed targets and sources are those the document names, whichever way it came in',
                                   'impl': {k_: got.get(k_) for k_ in ('exposed', 'lines', 'crash')}, 'expected': {k_: exp.get(k_) for k_ in ('exposed', 'lines')}})


def carried_doc(cls, carried):
    """The carried elements put into a running-order document of their own (the accessor model reads documents)."""
    from . import build as B
    if CARRIED[cls][2] == 'item':
        return B.ro_doc([B.story('CARRIER', list(carried))])
    return B.ro_doc(list(carried))


def carried_views_of_model(cls, view):
    st = view['stories']
    if CARRIED[cls][2] == 'item':
        return st[0]['items']
    return [{'id': s['id'], 'slug': s['slug'], 'items': s['items']} for s in st]


def carried_content_check(oc, msgs, obs, resps):
    """Carried stories / items are exposed WITH THEIR CONTENT: the element objects of a message answer (ID, slug, type,
    object ID, MOS ID, note, the items of a story) what the accessor model reads from the same elements in a document."""
    from . import lean
    jobs = []
    for (lbl, text), o, r in zip(msgs, obs, resps):
        if r.get('classify_err') or not r.get('shaped') or o.get('carried_views') is None or not o['carried']:
            continue
        jobs.append((lbl, text, o))
    rs = lean.run_batch([{'op': 'access', 'ro': carried_doc(o['cls'], o['carried'])} for _, _, o in jobs])
    for (lbl, text, o), r in zip(jobs, rs):
        oc.evaluations += 1
        if not r['dom']['WfAcc'] or 'view' not in r['model']:
            oc.count('carried-content:outside-accessor-domain')
            continue
        oc.count('carried-content:judged')
        want = carried_views_of_model(o['cls'], r['model']['view'])
        got = o['carried_views']
        if got != {'ok': want}:
            oc.failing.append({'kind': 'elements-carried', 'text': text, 'label': lbl,
                               'spec': 'carried stories / items are not exposed with their content (the element objects of the message '
                                       'answer differently from the carried elements)', 'impl': got, 'model': want})


def run_c20(tier, seed):
    from . import lean
    oc = Outcome('C20')
    msgs = []
    ros = []
    for lbl, t, ro_text in messages(tier, seed):
        try:
            from . import impl
            impl.load(t)
            msgs.append((lbl, t))
            ros.append(ro_text)
        except Exception:  # noqa: BLE001 - mutated into something unclassifiable
            continue
    obs = [observe(t, rt) for (_, t), rt in zip(msgs, ros)]
    ro_of = {t: rt for (_, t), rt in zip(msgs, ros)}
    reqs = []
    for (_, text), o in zip(msgs, obs):
        r = {'op': 'elements', 'msg': TJ.parse(text)}
        if 'ok' in o['exposed']:
            r['impl_exposed'] = o['exposed']['ok']
        reqs.append(r)
    resps = lean.run_batch(reqs)
    for (lbl, text), o, r in zip(msgs, obs, resps):
        oc.evaluations += 1
        if r.get('classify_err'):
            continue
        rec = {'kind': 'elements', 'text': text, 'label': lbl, 'ro_text': ro_of.get(text)}
        oc.count('class:' + o['cls'])
        if o.get('after_merge'):
            oc.failing.append(dict(rec, spec='what the message object exposes (accessors, inspect()) changed after the object was merged',
                                   impl={'before': {'exposed': o['exposed'], 'lines': o['lines']}, 'after': o['after_merge'][0]}))
        shaped, shaped_i = r['shaped'], r['shaped_inspect']
        if shaped:
            oc.in_domain += 1
            if o['exposed'] != r['exposed']:
                oc.disagreements.append(dict(rec, what='accessors', impl=o['exposed'], model=r['exposed']))
            bad = []
            if 'ok' not in o['exposed']:
                bad.append('an accessor raised ' + str(o['exposed']))
            elif r['holds'] is not True:
                bad.append('exposed IDs differ from the IDs the message names')
            if o['carried'] is not None and o['cls'] in CARRIED:
                exp = expected_carried(o['cls'], TJ.parse(text))
                if exp is not None and o['carried'] != exp:
                    bad.append('carried elements are not exposed with their content')
            if bad:
                oc.failing.append(dict(rec, spec='; '.join(bad), impl=o['exposed'], model=r['exposed']))
        if 'ok' in r['lines']:
            r['lines'] = {'ok': ''.join(l + '\n' for l in r['lines']['ok'])}
        if shaped_i:
            # wording of inspect() is not part of the property: compare "raised?" and which named IDs are mentioned
            proj_i = (lambda L: ('crash', L['crash']) if 'crash' in L else ('ok', [x for x in r['mention'] if x in L['ok']]))
            if proj_i(o['lines']) != proj_i(r['lines']):
                oc.disagreements.append(dict(rec, what='inspect(): raised? / named IDs mentioned', impl=o['lines'], model=r['lines']))
            elif o['lines'] != r['lines']:
                oc.count('info:inspect-wording-differs-from-model')
            bad = []
            if 'ok' not in o['lines']:
                bad.append('inspect() raised ' + str(o['lines']))
            else:
                missing = [x for x in r['mention'] if x not in o['lines']['ok']]
                if missing:
                    bad.append('inspect() does not mention ' + ', '.join(missing))
            if bad:
                oc.failing.append(dict(rec, spec='; '.join(bad), impl=o['lines'], model=r['lines']))
        if shaped:
            n_many = sum(len(v['many']) for _, v in (o['exposed'].get('ok') or []) if isinstance(v, dict) and 'many' in v)
            oc.count('listed-ids=%d' % min(n_many, 4))
            h = stable_hash(text)
            if h not in oc.nontrivial:
                oc.nontrivial.add(h)
                if len(oc.samples) < 5 and len(oc.nontrivial) % 173 == 1:
                    oc.samples.append({'label': lbl, 'text': text[:700], 'exposed': o['exposed'], 'inspect': o['lines']})
    carried_content_check(oc, msgs, obs, resps)
    sources_check(oc)
    oc.rule = ('every message of the G-pos scope (1..n sources, blank/unknown/absent targets), compact and pretty-printed, '
               'plus messages of random histories; non-trivial = schema-shaped message (distinct by text hash)')
    return oc


def replay(pid, fl):
    from . import lean
    o = observe(fl['text'], fl.get('ro_text'))
    req = {'op': 'elements', 'msg': TJ.parse(fl['text'])}
    if 'ok' in o['exposed']:
        req['impl_exposed'] = o['exposed']['ok']
    r = lean.run_batch([req])[0]
    print(json.dumps({'impl': {'exposed': o['exposed'], 'lines': o['lines']}, 'model': {'exposed': r.get('exposed'), 'lines': r.get('lines')},
                      'holds': r.get('holds'), 'mention': r.get('mention')}, indent=1, ensure_ascii=False)[:3000])
    bad = bool(o.get('after_merge'))
    if r.get('shaped'):
        bad = bad or o['exposed'] != r['exposed'] or r['holds'] is not True
        if o['carried'] is not None and o['cls'] in CARRIED:
            exp = expected_carried(o['cls'], TJ.parse(fl['text']))
            bad = bad or (exp is not None and o['carried'] != exp)
        if o.get('carried_views') is not None and o['carried']:
            ra = lean.run_batch([{'op': 'access', 'ro': carried_doc(o['cls'], o['carried'])}])[0]
            if ra['dom']['WfAcc'] and 'view' in ra['model']:
                bad = bad or o['carried_views'] != {'ok': carried_views_of_model(o['cls'], ra['model']['view'])}
    if r.get('shaped_inspect'):
        if 'ok' in r['lines']:
            r['lines'] = {'ok': ''.join(l + '\n' for l in r['lines']['ok'])}
        bad = bad or 'ok' not in o['lines'] or any(x not in o['lines']['ok'] for x in r['mention'])
    if bad:
        print(f'VIOLATION property={pid} replay=(this file): still fails on the current tree')
        return 1
    print(f'{pid}: the recorded input no longer fails on the current tree')
    return 0


def replay_sources(pid, fl):
    oc = Outcome(pid)
    sources_check(oc)
    if oc.failing:
        print(f'VIOLATION property={pid} replay=(this file): still fails on the current tree')
        return 1
    print(f'{pid}: the recorded input no longer fails on the current tree')
    return 0
