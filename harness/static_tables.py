"""Static tie for C08: the two classification tables are read from the Python SOURCE (ast, no
execution) and compared entry by entry, in order, with the Lean model's tables; the exception
hierarchy the model's error classes assume is compared with mosromgr.exc."""
import ast
import os


def source_tables(repo):
    path = os.path.join(repo, 'mosromgr', 'mostypes.py')
    tree = ast.parse(open(path, encoding='utf-8').read())
    tag_table, ea_table = None, None
    for node in ast.walk(tree):
        if isinstance(node, ast.Assign) and len(node.targets) == 1 and isinstance(node.targets[0], ast.Name):
            name = node.targets[0].id
            if name == 'tag_class_map' and isinstance(node.value, ast.Dict):
                tag_table = [[k.value, v.id] for k, v in zip(node.value.keys, node.value.values)]
            if name == 'subcls':
                d = node.value
                # `{...}.get(key)` or `{...}[key]`
                while not isinstance(d, ast.Dict):
                    d = getattr(d, 'func', None) or getattr(d, 'value', None)
                    if d is None:
                        break
                if isinstance(d, ast.Dict):
                    ea_table = []
                    for k, v in zip(d.keys, d.values):
                        op, t, s = (e.value for e in k.elts)
                        ea_table.append([op, t, s, v.id])
    return tag_table, ea_table


def check(repo):
    """-> list of problems (empty when the source tables and hierarchy match the model)"""
    from . import lean
    problems = []
    tag_table, ea_table = source_tables(repo)
    m = lean.run_batch([{'op': 'tables'}])[0]
    if tag_table is None or ea_table is None:
        problems.append('could not locate tag_class_map / subcls tables in mostypes.py (the code was restructured)')
    else:
        if tag_table != m['tag_table']:
            problems.append({'what': 'tag -> class table differs (entries or ORDER)', 'source': tag_table, 'model': m['tag_table']})
        if ea_table != m['ea_table']:
            problems.append({'what': 'roElementAction table differs', 'source': ea_table, 'model': m['ea_table']})
    # every class the tables can return defines merge(); the model has exactly these kinds
    src = ast.parse(open(os.path.join(repo, 'mosromgr', 'mostypes.py'), encoding='utf-8').read())
    merging = sorted(c.name for c in src.body if isinstance(c, ast.ClassDef)
                     and any(isinstance(f, ast.FunctionDef) and f.name == 'merge' for f in c.body) and c.name != 'MosFile')
    model_kinds = sorted({k for _, k in m['tag_table'] if k not in ('RunningOrder', 'ElementAction')} | {e[3] for e in m['ea_table']})
    if merging != model_kinds:
        problems.append({'what': 'classes defining merge() differ from the model\'s message kinds', 'source': merging, 'model': model_kinds})
    from mosromgr import exc
    hier = [('MosCompletedMergeError', 'MosMergeError'), ('MosMergeError', 'MosRoMgrException'), ('UnknownMosFileType', 'MosRoMgrException'),
            ('InvalidMosCollection', 'MosRoMgrException'), ('MosInvalidXML', 'MosRoMgrException'),
            ('StoryNotFoundWarning', 'MosRoMgrWarning'), ('ItemNotFoundWarning', 'MosRoMgrWarning'),
            ('DuplicateStoryWarning', 'MosRoMgrWarning'), ('MosMergeNonStrictWarning', 'MosRoMgrWarning')]
    for sub, sup in hier:
        if not issubclass(getattr(exc, sub), getattr(exc, sup)):
            problems.append(f'{sub} is not a {sup}')
    for a, b in [('UnknownMosFileType', 'MosMergeError'), ('InvalidMosCollection', 'MosMergeError'), ('MosInvalidXML', 'MosMergeError')]:
        if issubclass(getattr(exc, a), getattr(exc, b)):
            problems.append(f'{a} must not be a {b} (the non-strict loop would swallow it)')
    return problems
