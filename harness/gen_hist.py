"""G-hist: state-aware random merge histories (DESIGN.md §5).

A history is a roCreate document followed by messages of all 24 classes; each message is built
against the *current* tree of the real implementation (read neutrally), so that its references
resolve with probability ~0.8 and are unknown / blank / repeated / self-referential otherwise.
All randomness comes from one `random.Random(seed)`.
"""
import random

from . import build as B, treejson as TJ
from .build import ABSENT, BLANK
from .treejson import E

CLASSES = ['StorySend', 'StoryAppend', 'StoryDelete', 'StoryInsert', 'StoryMove', 'StoryReplace',
           'ItemDelete', 'ItemInsert', 'ItemMoveMultiple', 'ItemReplace', 'ReadyToAir',
           'RunningOrderReplace', 'MetaDataReplace',
           'EAStoryReplace', 'EAItemReplace', 'EAStoryDelete', 'EAItemDelete', 'EAStoryInsert',
           'EAItemInsert', 'EAStorySwap', 'EAItemSwap', 'EAStoryMove', 'EAItemMove']

CORNER_DUR = ['nan', 'NaN', 'inf', '-inf', ' Infinity ', '-5', '-0.0', '1e400', '1e-400', '0.1234567', '1_0.5', '9' * 320,
              '00:01:30', 'junk', '1,5', '', '12 s', '0x10']       # ... and texts float() rejects: no merge reads them either
DUR = ['0', '1', '2.5', '3', '10', '12.25', '0.125', '7.75', '60', '31', ' 3 ', '+2', '1e1', '25e-1', '0.5E1', '1.50', '007', '.5', '5.', '\t4\n', '0.1', '0.2', '0.3337', '20.0004', '0.04', '7.7', '33.333333']
CR = '@@CR@@'        # becomes the character reference &#13; where the caller serialises the message (hist_run)
TEXTS = ['del\x7f nel\x85 pu2\x92 (C1 controls)', 'line one' + CR + 'line two', 'cafe\u0301 (decomposed)', '\u2126\u212b',  'plain text', ' padded ', '(note)', '<tech>', '(half', 'half>', 'Ünïcödé ☃ 𝄞', 'a & b < c > d "q" \'s\'',
         '', None, '\t', 'line1\nline2', '  (  spaced note )  ', 'x' * 40]


SPECIAL_IDS = ['L' * 128 + 'A', 'L' * 128 + 'B', 'STORY%20ONE', 'SHARE 100%', '%d', 'e\u0301', '\u212b', "O'NEILL", 'say "x"', 'a]b', '[1]', 'a=b', '*', '.', '..', 'a/b', '@id', '{ns}x', 'a b', "x'y\"z", '-', 'None', '%s', '{0}', '&amp;', '<x>', 'é', '𝄞']


class Gen:
    def __init__(self, rng, odd_message_ids=False, corner_durations=False):
        self.corner_durations = corner_durations
        self.rng = rng
        self.n = 0
        self.issued = {}
        # histories that are also fed to collections keep ascending numeric message IDs
        self.odd_message_ids = odd_message_ids

    def fresh(self, prefix):
        """A new ID.  IDs are opaque strings: now and then the new one is a look-alike of one already
        in use (padded with blanks, other letter case, with a comma) or is blank (``<storyID/>``)."""
        r = self.rng
        issued = self.issued.setdefault(prefix, [])
        c = r.random()
        if issued and c < 0.05:
            base = r.choice(issued)
            return r.choice([base + ' ', ' ' + base, base + '\n', base.swapcase(), base + ',x', 'x,' + base, base + '0', base[:-1] or 'S', base + base])
        if c < 0.065:
            return BLANK
        if c < 0.1:
            # characters that matter to XPath predicates, format strings, paths and XML escaping
            self.n += 1
            v = r.choice(SPECIAL_IDS) + str(self.n)
            issued.append(v)
            return v
        self.n += 1
        v = f'{prefix}{self.n}'
        issued.append(v)
        return v

    def timing(self):
        r = self.rng
        if self.corner_durations and r.random() < 0.05:
            # durations float() accepts whose VALUE no merge may depend on (merges never read them)
            v = r.choice(CORNER_DUR)
            return B.timing_md(**{r.choice(['duration', 'text_time', 'media_time']): v})
        c = r.random()
        if c < 0.35:
            return None
        if c < 0.5:
            return B.timing_md(duration=r.choice(DUR))
        if c < 0.7:
            return B.timing_md(text_time=r.choice(DUR), media_time=r.choice(DUR))
        if c < 0.8:
            return B.timing_md(text_time=r.choice(DUR))
        if c < 0.85:
            return B.timing_md(media_time=r.choice(DUR))
        if c < 0.9:
            return B.timing_md(payload=False)
        return B.timing_md(duration=r.choice(DUR), started='2021-03-04T10:%02d:00' % r.randrange(60) + r.choice(['', '', '.5', 'Z', '+01:00']),
                           ended=('2021-03-04T11:%02d:30' % r.randrange(60)).replace('T', r.choice(['T', 'T', ' '])) + r.choice(['', '', '.125']))

    def new_item(self, iid=None):
        r = self.rng
        iid = iid or self.fresh('i')
        extra = []
        if r.random() < 0.3:
            extra.append(E('itemEdDur', text=str(r.randrange(100))))
        if r.random() < 0.2:
            note = E('studioCommand', E('text', text='a note'), attrs={'type': 'note'})
            if r.random() < 0.4:
                note = E('wrapper', E('studioCommand', E('text', text='a cue'), attrs={'type': 'cue'}), note)   # nested: still the item's note
            extra.append(E('mosExternalMetadata', E('mosSchema', text='s'), E('mosPayload', note)))
        if r.random() < 0.15:
            # vendor payload with look-alikes: a nested <item>, a nested <p>, a nested <story>
            extra.append(E('mosExternalMetadata', E('mosSchema', text='vendor'),
                           E('mosPayload', E('item', E('itemSlug', text='nested item')), E('p', text='nested paragraph'),
                             E('story', E('storyID', text='nested')), E('storyItem', E('itemID', text='nested storyItem')))))
        if r.random() < 0.1:
            extra.append(E('itemChannel', text='A', attrs={'note': 'the "late" edition', 'x': "it's", 'nl': 'a\nb'}))
        return B.item(iid, slug=r.random() < 0.8, extra=extra)

    def body(self, n_items=None):
        r = self.rng
        out = []
        for _ in range(r.randrange(0, 4) if n_items is None else n_items):
            if r.random() < 0.5:
                out.append(B.p(r.choice(TEXTS)))
            out.append(self.new_item())
        if r.random() < 0.5:
            out.append(B.p(r.choice(TEXTS)))
        if r.random() < 0.25:
            # mixed content: text between the children (tails)
            for c in out:
                if r.random() < 0.6:
                    c[3] = r.choice([' tail text ', '\n    ', 'Ünï', ' & ', 'x'])
        if r.random() < 0.08 and any(c[0] == 'item' for c in out):
            # the same clip used twice in one body: a second item with an ID the body already holds (and, sometimes, two blank ones)
            twin = [list(c) for c in out if c[0] == 'item'][0]
            out.insert(r.randrange(len(out) + 1), twin)
            if r.random() < 0.3:
                out.insert(r.randrange(len(out) + 1), B.item(BLANK))
                out.append(B.item(BLANK))
        if r.random() < 0.08:
            # a storyItem that is NOT a direct child of the body (inside a paragraph): it is content, not an item of the story
            out.insert(r.randrange(len(out) + 1), E('p', E('storyItem', E('itemID', text='deep'), E('itemSlug', text='embedded')), text='para with an embedded cue'))
        if r.random() < 0.1 and out:
            # presenter tags of a roStorySend body: ordinary children, in front of an item / a paragraph
            k_ = r.randrange(len(out))
            out.insert(k_, E(r.choice(['storyPresenter', 'storyPresenterRR']), text=r.choice(['Anna', '12'])))
            if r.random() < 0.4:
                out.insert(k_, E('storyPresenter', text='Ben'))
        if r.random() < 0.2:
            out.append(E('storyNum', text='4', tail='\n   '))
        if r.random() < 0.12:
            out.append(E(r.choice(['em', 'i', 'te', 'temp', 'm', 't', 'ite', 'tem']), text='look-alike tag'))
        return out

    def new_story(self, sid=None):
        sid = sid or self.fresh('S')
        return B.story(sid, self.body(), slug=self.rng.random() < 0.85, md=self.timing())

    def ro(self, n_stories):
        r = self.rng
        stories = [self.new_story() for _ in range(n_stories)]
        doc = B.ro_doc(stories, pattern=r.choice(B.PATTERNS), message_id=r.choice(['1', '1', '1', '0', '007', '4294967296']) if self.odd_message_ids else '1',
                       ed_start=(r.choice(['junk', '25:61', '', '9999-12-31T23:59:59', '0000-00-00'])
                                 if self.corner_durations and r.random() < 0.04 else
                                 r.choice([None, None, '2021-03-04T09:00:00', '2020-02-29T23:59:30', '\n      2021-03-04T09:00:00\n    ', '2021-03-04 09:00:00.5', ' 2021-03-04T09:00:00Z '])))
        # the running order's own envelope varies like any other (roCreate first, fields missing, extras)
        if r.random() < 0.3:
            # a standard MOS header field the library does not use: the running order's own idea of its duration
            rc = TJ.find(doc, 'roCreate')
            rc[4].insert(min(2, len(rc[4])), E('roEdDur', text=r.choice(['00:10:00', '00:00:00', '1:02:03', 'junk'])))
        return vary_envelope(r, doc)


def state_ids(state):
    """[(story id, [item ids])] read neutrally from a JSON tree"""
    rc = TJ.find(state, 'roCreate')
    out = []
    if rc is None:
        return out
    for s in TJ.findall(rc, 'story'):
        out.append((TJ.child_text(s, 'storyID'), [TJ.child_text(i, 'itemID') for i in TJ.findall(s, 'item')]))
    return out


def pick_ref(rng, ids, p=0.8, allow_blank=True, allow_absent=False):
    ids = [i for i in ids if i is not None]
    c = rng.random()
    if ids and c < p:
        return rng.choice(ids)
    if ids and c < p + 0.04:
        # a reference that differs from an existing ID only by padding or letter case names nothing
        base = rng.choice(ids)
        return rng.choice([base + ' ', ' ' + base, base.swapcase(), base.strip() or 'Z'])
    opts = ['ZZ-unknown']
    if allow_blank:
        opts.append(BLANK)
    if allow_absent:
        opts.append(ABSENT)
    return rng.choice(opts)


def pick_sources(rng, ids, p=0.85, max_len=3):
    ids = [i for i in ids if i is not None]
    n = rng.randrange(1, max_len + 1)
    out = []
    pool = list(ids)
    rng.shuffle(pool)
    for k in range(n):
        c = rng.random()
        if pool and c < p:
            out.append(pool.pop())
        elif c < p + 0.05 and out:
            out.append(out[0])          # repeated
        elif c < p + 0.1:
            out.append(BLANK)
        else:
            out.append('ZZ-unknown')
    return out


def vary_envelope(rng, doc):
    """Messages do not all share one envelope layout: drop mosID / ncsID, add an unknown element,
    move the message element first (the envelope of the message must never matter)."""
    c = rng.random()
    kids = list(doc[4])
    if c < 0.15:
        kids = [k for k in kids if k[0] != 'ncsID']
    elif c < 0.25:
        kids = [k for k in kids if k[0] not in ('ncsID', 'mosID')]
    elif c < 0.35:
        kids = [E('mosExtra', text='x')] + kids
    elif c < 0.42:
        kids = kids[-1:] + kids[:-1]
    return [doc[0], doc[1], doc[2], doc[3], kids]


ODD_MESSAGE_IDS = [ABSENT, BLANK, 'abc', '12x', '007', '0', ' 9 ', '+9', '1_0', '\n  12\n', '1__0', '_1', '+']


def odd_message_id(rng, doc):
    """The envelope's messageID missing, blank, non-numeric or zero-padded (ASCII only: the model's
    int() is stated on ASCII digit strings)."""
    v = rng.choice(ODD_MESSAGE_IDS)
    kids = []
    for k in doc[4]:
        if k[0] == 'messageID':
            if v is ABSENT:
                continue
            k = E('messageID', text=v)
        kids.append(k)
    return [doc[0], doc[1], doc[2], doc[3], kids]


def random_message(g, state, message_id, cls=None, p=0.8):
    """-> (class name, message tree) built against `state`, inside a varied envelope."""
    if cls is None and g.rng.random() < 0.04:
        cls, doc = 'RunningOrderEnd', B.ro_delete(message_id=str(message_id))
    else:
        cls, doc = _random_message(g, state, message_id, cls, p)
    doc = vary_envelope(g.rng, doc)
    if g.odd_message_ids and g.rng.random() < 0.05:
        doc = odd_message_id(g.rng, doc)
    return cls, doc


def _random_message(g, state, message_id, cls=None, p=0.8):
    r = g.rng
    cls = cls or r.choice(CLASSES)
    sids_items = state_ids(state)
    sids = [s for s, _ in sids_items]
    mid = str(message_id)
    # the story an item-level message addresses
    sref = pick_ref(r, sids, p=0.9)
    items_of = dict((s, it) for s, it in reversed(sids_items))
    iids = items_of.get(sref, []) if isinstance(sref, str) else []
    kw = {'message_id': mid}
    if cls == 'StorySend':
        sid = pick_ref(r, sids, p)
        tm = g.timing()
        return cls, B.story_send(sid, g.body(), pre=[E('storyNum', text='1')] if r.random() < 0.5 else [],
                                 post=[tm] if r.random() < 0.5 and tm is not None else [], **kw)
    if cls == 'StoryAppend':
        return cls, B.story_append([g.new_story() for _ in range(r.randrange(0, 3))], **kw)
    if cls == 'StoryDelete':
        return cls, B.story_delete(pick_sources(r, sids), **kw)
    if cls == 'StoryInsert':
        car = [g.new_story(r.choice(sids) if sids and r.random() < 0.2 and sids[0] else None) for _ in range(r.randrange(1, 5))]
        if r.random() < 0.15 and car:
            car.append(g.new_story(TJ.child_text(car[0], 'storyID')))       # the same story listed twice in one message
        return cls, B.story_insert(pick_ref(r, sids, p), car, **kw)
    if cls == 'StoryMove':
        n = r.choice([1, 2, 2, 2, 0])
        ids = [pick_ref(r, sids, p) for _ in range(n)]
        return cls, B.story_move(ids, **kw)
    if cls == 'StoryReplace':
        return cls, B.story_replace(pick_ref(r, sids, p), [g.new_story() for _ in range(r.randrange(0, 5))], **kw)
    if cls == 'ItemDelete':
        return cls, B.item_delete(sref, pick_sources(r, iids), **kw)
    if cls == 'ItemInsert':
        return cls, B.item_insert(sref, pick_ref(r, iids, p), [g.new_item() for _ in range(r.randrange(0, 3))], **kw)
    if cls == 'ItemMoveMultiple':
        srcs = pick_sources(r, iids)
        tgt = pick_ref(r, [i for i in iids if i not in srcs] or iids, p)
        return cls, B.item_move_multiple(sref, srcs + [tgt], **kw)
    if cls == 'ItemReplace':
        tgt = pick_ref(r, iids, p)
        car = [g.new_item() for _ in range(r.randrange(0, 4))]
        if car and isinstance(tgt, str) and r.random() < 0.25:
            car.insert(r.randrange(len(car)), g.new_item(tgt))          # a replacement re-using the replaced item's ID
        return cls, B.item_replace(sref, tgt, car, **kw)
    if cls == 'ReadyToAir':
        return cls, B.ready_to_air(**kw)
    if cls == 'RunningOrderReplace':
        rr_stories = [g.new_story() for _ in range(r.randrange(0, 4))]
        if sids and r.random() < 0.35:
            # the replacement still lists stories the running order has, some of them bare (no body): what arrives is what was sent
            for sid_ in r.sample([x for x in sids if isinstance(x, str)] or ['S'], k=min(2, len([x for x in sids if isinstance(x, str)]) or 1)):
                rr_stories.insert(r.randrange(len(rr_stories) + 1), B.story(sid_, [] if r.random() < 0.7 else [B.p('re-sent')], slug=r.random() < 0.5))
        return cls, B.ro_replace(rr_stories, pattern=r.choice(B.PATTERNS),
                                 slug=r.choice(['replaced slug', 'replaced slug', '  Late   News ', '\n padded \n', 'Ünï']),
                                 ed_start=r.choice([None, '2021-03-04T09:30:00', '\n  2021-03-04T09:30:00\n']),
                                 **dict(kw, ro_id=r.choice(['RO1', 'RO1', 'RO1', 'OTHER-RO', BLANK]) if g.odd_message_ids else 'RO1'))
    if cls == 'MetaDataReplace':
        ch = []
        if r.random() < 0.7:
            ch.append(E('roSlug', text=r.choice(['new slug', 'Ünï', 'a&b'])))
        if r.random() < 0.4:
            ch.append(E('roEdStart', text=r.choice(['2021-03-04T08:00:00', '2022-12-31T23:59:59'])))
        if r.random() < 0.4:
            ch.append(B.timing_md(duration='5', schema=r.choice(['s1', 's2', 'http://example.org/schema'])))
        if r.random() < 0.3:
            ch.append(E('roTrigger', text='trig'))
        if r.random() < 0.3:
            ch.append(E(r.choice(['roChannel', 'roEdDur', 'roTrigger']), text=r.choice([None, None, ' ', '\n  '])))   # a field sent empty
        return cls, B.metadata_replace(ch, **kw)
    if cls == 'EAStoryReplace':
        return cls, B.ea('REPLACE', {'storyID': pick_ref(r, sids, p)}, [[g.new_story() for _ in range(r.randrange(0, 5))]], **kw)
    if cls == 'EAItemReplace':
        return cls, B.ea('REPLACE', {'storyID': sref, 'itemID': pick_ref(r, iids, p)},
                         [[g.new_item() for _ in range(r.randrange(0, 3))]], **kw)
    if cls == 'EAStoryDelete':
        return cls, B.ea('DELETE', ABSENT if r.random() < 0.5 else {'storyID': BLANK}, [B.ids('storyID', pick_sources(r, sids))], **kw)
    if cls == 'EAItemDelete':
        return cls, B.ea('DELETE', {'storyID': sref}, [B.ids('itemID', pick_sources(r, iids))], **kw)
    if cls == 'EAStoryInsert':
        t = ABSENT if r.random() < 0.15 else {'storyID': pick_ref(r, sids, p)}
        return cls, B.ea('INSERT', t, [[g.new_story() for _ in range(r.randrange(1, 3))]], **kw)
    if cls == 'EAItemInsert':
        return cls, B.ea('INSERT', {'storyID': sref, 'itemID': pick_ref(r, iids, p)},
                         [[g.new_item() for _ in range(r.randrange(0, 3))]], **kw)
    if cls == 'EAStorySwap':
        return cls, B.ea('SWAP', r.choice([ABSENT, {'storyID': BLANK}]),
                         [B.ids('storyID', [pick_ref(r, sids, p), pick_ref(r, sids, p)])], **kw)
    if cls == 'EAItemSwap':
        return cls, B.ea('SWAP', {'storyID': sref}, [B.ids('itemID', [pick_ref(r, iids, p), pick_ref(r, iids, p)])], **kw)
    if cls == 'EAStoryMove':
        srcs = pick_sources(r, sids)
        t = ABSENT if r.random() < 0.15 else {'storyID': pick_ref(r, [s for s in sids if s not in srcs] or sids, p)}
        return cls, B.ea('MOVE', t, [B.ids('storyID', srcs)], **kw)
    if cls == 'EAItemMove':
        srcs = pick_sources(r, iids)
        return cls, B.ea('MOVE', {'storyID': sref, 'itemID': pick_ref(r, [i for i in iids if i not in srcs] or iids, p)},
                         [B.ids('itemID', srcs)], **kw)
    raise ValueError(cls)


def message_ids(rng, n):
    """Ascending message IDs of mixed digit counts (crossing 9→10, 99→100 … 10^8, 10^9, 2^32, 2^63)."""
    start = rng.choice([2, 7, 8, 95, 98, 996, 5000, 5000, 99999995, 999999994, 4294967290, 9223372036854775800])
    out = []
    cur = start
    for _ in range(n):
        out.append(cur)
        if rng.random() < 0.06:
            cur = cur * rng.choice([9, 10, 11, 101]) + rng.randrange(10)      # a jump to a wider number
        else:
            cur += rng.choice([1, 1, 1, 2, 3, 11])
    return out
