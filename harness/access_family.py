"""Correspondence runs for the accessor properties C15, C16, C17."""
import itertools
import os
import random
from datetime import datetime, timedelta

from . import build as B, gen_fuzz, gen_hist, hist_run, treejson as TJ
from .build import ABSENT, BLANK
from .core import Outcome, stable_hash
from .treejson import E

TICKS = 10 ** 6                    # the model's unit: one microsecond
EPOCH_TICKS = 306 * 86400 * TICKS  # ticks between 0000-03-01 (the model's epoch) and 0001-01-01
ZONE_UNIT = 2 ** 60                # the model's zoneUnit


class Unrepresentable(Exception):
    pass


def ticks(dt):
    if dt is None:
        return None
    if not isinstance(dt, datetime):
        raise Unrepresentable(repr(dt))
    zone = 0
    if dt.tzinfo is not None:
        # an aware datetime: the wall-clock fields plus the zone (the model's code: 1 + 1440 + offset in minutes)
        off = dt.utcoffset()
        secs = off.days * 86400 + off.seconds
        if off.microseconds or secs % 60:
            raise Unrepresentable(repr(dt))
        zone = 1 + 1440 + secs // 60
        dt = dt.replace(tzinfo=None)
    delta = dt - datetime(1, 1, 1)
    us = (delta.days * 86400 + delta.seconds) * 10 ** 6 + delta.microseconds
    return us + EPOCH_TICKS + ZONE_UNIT * zone


def eighths(x):
    """A duration/offset (float seconds) in the model's unit.  The generated values are decimals with at most six
    decimals; a float sum of such values is within 1e-3 µs of the exact one (IEEE rounding is not modelled)."""
    if x is None:
        return None
    r = x * TICKS
    n = round(r)
    if abs(r - n) > 1e-3 or n < 0:
        raise Unrepresentable(repr(x))
    return int(n)


def item_view(it):
    return {'id': it.id, 'slug': it.slug, 'type': it.type, 'object_id': it.object_id,
            'mos_id': it.mos_id, 'note': it.note}


def body_view(body):
    out = []
    for b in body:
        out.append({'p': b} if isinstance(b, str) else {'item': item_view(b)})
    return out


def hold(ro):
    """Story and Item wrapper objects as a caller would keep them across later merges."""
    try:
        return list(ro.stories)
    except Exception:  # noqa: BLE001
        return []


def held_mismatch(held, ro):
    """Wrappers fetched BEFORE a merge, read AFTER it: a wrapper whose element is still in the running order must
    read like a freshly fetched one (body, script, items, duration, slug); returns a description or None."""
    try:
        fresh = {id(s.xml): s for s in ro.stories}
        for h in held:
            f = fresh.get(id(h.xml))
            if f is None:
                continue
            for name, rd in (('body', lambda s: body_view(s.body)), ('script', lambda s: list(s.script)),
                             ('items', lambda s: [item_view(i) for i in s.items]), ('duration', lambda s: s.duration),
                             ('slug', lambda s: s.slug), ('id', lambda s: s.id)):
                a, b = rd(h), rd(f)
                if a != b:
                    return {'story': f.id, 'accessor': name, 'held': repr(a)[:300], 'fresh': repr(b)[:300]}
    except Exception as e:  # noqa: BLE001
        return {'raised': type(e).__name__}
    return None


_OTHER = {}


def _other_ro():
    """Another running order alive in the same process (a programme has many): listing ITS stories between listing and
    reading the stories of the one under observation must change nothing."""
    from . import impl
    if os.getpid() not in _OTHER:
        _OTHER.clear()
        _OTHER[os.getpid()] = impl.load(TJ.to_text(B.ro_doc(
            [B.story('O1', [B.item('o1')], md=B.timing_md(duration='7')), B.story('O2', [], md=B.timing_md(text_time='11', media_time='2')),
             B.story('O3', [B.p('other')], md=B.timing_md(duration='13'))], message_id='77', ro_id='OTHER', ed_start='2019-01-01T00:00:00')))
    return _OTHER[os.getpid()]


def _read_all(ro):
    v = {'ro_slug': ro.ro_slug}
    # accessors are read in no particular order by callers: the end time and the duration first, then the listing -
    # what they answer must not depend on what was read (or merged) before
    early = (ticks(ro.end_time), eighths(ro.duration))
    stories = ro.stories
    try:
        [(o_.offset, o_.start_time) for o_ in _other_ro().stories]
    except Exception:  # noqa: BLE001 - the other running order is not the one under observation
        pass
    sv = []
    for s in stories:
        sv.append({'id': s.id, 'slug': s.slug, 'duration': eighths(s.duration), 'offset': eighths(s.offset),
                   'start': ticks(s.start_time), 'stop': ticks(s.end_time), 'script': list(s.script),
                   'body': body_view(s.body), 'items': [item_view(i) for i in s.items]})
    v['stories'] = sv
    v['start'] = ticks(ro.start_time)
    v['stop'] = ticks(ro.end_time)
    v['duration'] = eighths(ro.duration)
    if early != (v['stop'], v['duration']):
        raise Unrepresentable(f'end_time/duration read before the story listing {early} differ from those read after it {(v["stop"], v["duration"])}')
    v['completed'] = bool(ro.completed)
    v['script'] = list(ro.script)
    v['body'] = body_view(ro.body)
    import xmltodict
    v['dict_ok'] = (ro.dict == xmltodict.parse(str(ro)))     # the `dict` accessor is the serialisation, parsed
    return v


def read_view(ro):
    """Every documented read accessor of a live RunningOrder -> {'view': …} or {'crash': name}."""
    from . import impl
    import warnings
    from xml.etree import ElementTree as _ET
    key = _ET.tostring(ro.xml, encoding='unicode')
    impl.apply_cfg(impl.cfg_for(key))
    # the process time zone is not an input either: naive times are wall-clock times, whatever TZ says
    import os, time, zlib
    os.environ['TZ'] = ('UTC', 'EST5EDT,M3.2.0,M11.1.0', 'Australia/Lord_Howe')[zlib.crc32(key.encode('utf-8', 'surrogatepass')) // 3 % 3]
    time.tzset()
    try:
        with warnings.catch_warnings():
            warnings.filterwarnings('error', category=DeprecationWarning)     # see impl.add
            before_ = _ET.tostring(ro.xml, encoding='unicode')
            v_ = _read_all(ro)
            str(ro)
            v2_ = _read_all(ro)
            if _ET.tostring(ro.xml, encoding='unicode') != before_:
                return {'crash': 'reading the accessors (or str / repr) changed the document'}
            if v2_ != v_:
                return {'crash': 'the accessors answer differently when read a second time'}
            return {'view': v_}
    except Unrepresentable as e:
        # a value that is negative or not a whole number of microseconds: inside the domain (decimal durations, parseable
        # times) no accessor may return one - judged like any other wrong observation; outside it nothing is judged
        return {'crash': 'unrepresentable value ' + str(e)[:60]}
    except Exception as e:  # noqa: BLE001
        return {'crash': impl.err_name(e).replace('crash:', '')}


# ---- generators ------------------------------------------------------------------------------------

FIELDS = ('duration', 'text_time', 'media_time', 'started', 'ended')
STARTS = ['2021-03-04T10:00:00', '2021-03-04T10:07:30', '2020-02-29T23:59:59', '2021-03-14T01:45:00', '2021-11-07T01:30:00']
ENDS = ['2021-03-04T10:05:00', '2021-03-04T11:00:00', '2020-03-01T00:00:10']
ZONES = ['', '', 'Z', '+00:00', '+01:00', '-05:30', '+13:45']
DURS = ['1800', '3600', '0', '3', '2.5', '12.25', '0.125', '60', '31', ' 3 ', '+2', '1e1', '25e-1', '0.5E1', '1.50', '007', '.5', '5.',
        '0.1', '0.2', '0.3337', '20.0004', '1.000001', '0.04', '7.7', '1e-3', '33.333333']


def story_md_variants():
    """Every subset of the five optional fields, plus: no metadata block, block without payload."""
    out = [('no-md', None), ('md-no-payload', B.timing_md(payload=False)), ('empty-payload', B.timing_md()),
           # a duration of exactly zero is a duration (a placeholder / break line), not a missing one
           ('duration=0', B.timing_md(duration='0')), ('text=0,media=0', B.timing_md(text_time='0', media_time='0')),
           ('text=0', B.timing_md(text_time='0')), ('duration=0.0', B.timing_md(duration='0.0')), ('duration=0e0', B.timing_md(duration='0e0')),
           ('duration=0,started', B.timing_md(duration='0', started=STARTS[0])), ('media=0.000000', B.timing_md(media_time='0.000000'))]
    for r in range(1, 6):
        for sub in itertools.combinations(FIELDS, r):
            kw = {}
            for k, f in enumerate(sub):
                kw[f] = (DURS[(k * 2 + r) % len(DURS)] if f in ('duration', 'text_time', 'media_time')
                         else (STARTS[(k + r) % 3] if f == 'started' else ENDS[(k + r) % 3]))
            out.append(('+'.join(sub), B.timing_md(**kw)))
    return out


def _respelt(t, rng):
    """The same document with every time field in another accepted spelling: a blank instead of the T, a
    fraction of a second (a multiple of 1/8 s)."""
    t = list(t)
    if t[0] in ('roEdStart', 'StoryStarted', 'StoryEnded') and t[2] and len(t[2]) == 19:
        v = t[2]
        c = rng.random()
        if c < 0.4:
            v = v.replace('T', ' ')
        if rng.random() < 0.6:
            v = v + rng.choice(['.5', '.125', '.250', '.875000', '.0', '.1', '.000001', '.37'])
        if rng.random() < 0.4:
            v = rng.choice(['\n      ', ' ', '\t']) + v + rng.choice(['\n    ', ' ', ''])      # a pretty-printed field
        t[2] = v
    t[4] = [_respelt(c, rng) for c in t[4]]
    return t


def _zoned(t, zone):
    """The same document with a zone designator appended to every time field."""
    t = list(t)
    if t[0] in ('roEdStart', 'StoryStarted', 'StoryEnded') and t[2]:
        t[2] = t[2] + zone()
    t[4] = [_zoned(c, zone) for c in t[4]]
    return t


def time_cases(tier, rng):
    variants = story_md_variants()
    out = []
    bodies = [[], [B.item('I1'), B.p('text')], [B.p('(note)'), B.item('I1'), B.p(' x '), B.item('I2')]]
    # one story: every variant x roEdStart present/absent
    for (lbl, md) in variants:
        for ed in (None, '2021-03-04T09:00:00'):
            out.append((f'1 story {lbl} roEdStart={ed is not None}',
                        B.ro_doc([B.story('A', bodies[1], md=md)], ed_start=ed)))
    for (lbl, md) in variants:
        if 'started' in lbl or 'ended' in lbl:
            for z in ZONES[2:]:
                out.append((f'1 story {lbl} zone={z}', _zoned(B.ro_doc([B.story('A', bodies[1], md=md)], ed_start='2021-03-04T09:00:00'),
                                                             lambda z=z: z)))
            out.append((f'1 story {lbl} zone on roEdStart only',
                        B.ro_doc([B.story('A', bodies[1], md=md)], ed_start='2021-03-04T09:00:00+02:00')))
            out.append((f'1 story {lbl} zone on the story only',
                        B.ro_doc([_zoned(B.story('A', bodies[1], md=md), lambda: '-03:00'), B.story('B', [], md=B.timing_md(duration='4'))],
                                 ed_start='2021-03-04T09:00:00')))
    # the payload fields in every ORDER (a schema does not fix it): which field wins is a matter of names, not of position
    def reordered(md, order):
        md = [md[0], md[1], md[2], md[3], [list(c) for c in md[4]]]
        for c in md[4]:
            if c[0] == 'mosPayload':
                kids = list(c[4])
                c[4] = [kids[i] for i in order if i < len(kids)] + [k for j, k in enumerate(kids) if j not in order]
        return md
    import itertools as _it
    full = B.timing_md(duration='90', text_time='20', media_time='40', started='2021-03-04T10:00:00', ended='2021-03-04T10:05:00')
    three = B.timing_md(duration='90', text_time='20', media_time='40')
    for order in _it.permutations(range(3)):
        out.append((f'payload order {order} (StoryDuration, TextTime, MediaTime)',
                    B.ro_doc([B.story('A', bodies[1], md=reordered(three, order)), B.story('B', [], md=B.timing_md(text_time='5'))], ed_start='2021-03-04T09:00:00')))
    for order in list(_it.permutations(range(5)))[::7]:
        out.append((f'payload order {order} (all five fields)',
                    B.ro_doc([B.story('A', bodies[1], md=reordered(full, order)), B.story('B', [], md=reordered(three, order[:3] if max(order[:3]) < 3 else (2, 1, 0)))], ed_start='2021-03-04T09:00:00')))
    # several stories: combinations
    n_multi = 150 if tier == 'quick' else 20000
    for k in range(n_multi):
        n = rng.randrange(2, 6)
        ids = [f'S{i}' for i in range(n)]
        if rng.random() < 0.2:
            a, b = rng.sample(range(n), 2)
            ids[a] = ids[b]                  # duplicate story ID (offset table keyed by ID)
        sts = []
        lbls = []
        for sid in ids:
            lbl, md = rng.choice(variants)
            lbls.append(lbl)
            sts.append(B.story(sid, rng.choice(bodies), md=md, slug=rng.random() < 0.8))
        ed = rng.choice([None, '2021-03-04T09:00:00', '2019-12-31T23:59:59', '2021-03-14T01:30:00', '2021-11-07T00:59:30', '2021-10-03T01:45:00'])
        doc = B.ro_doc(sts, ed_start=ed, pattern=rng.choice(B.PATTERNS))
        zl = ''
        if rng.random() < 0.3:
            # times written with a zone designator (one zone for the document, or a different one per field)
            one = rng.choice(ZONES[2:])
            per_field = rng.random() < 0.4
            zl = ' zones=' + ('mixed' if per_field else one)
            doc = _zoned(doc, lambda: rng.choice(ZONES) if per_field else one)
        if rng.random() < 0.25:
            doc = _respelt(doc, rng)
            zl += ' respelt'
        out.append((f'{n} stories [{", ".join(lbls)}] roEdStart={ed is not None}{zl}', doc))
    # one long running order (listing it is quadratic in the library, so just one): 1200 stories with paragraphs
    out.append(('1200 stories', B.ro_doc([B.story(f'S{k}', [B.p(f'line {k}'), B.item(f'i{k}')], md=B.timing_md(duration='1.5') if k % 3 else None)
                                          for k in range(1200)], ed_start='2021-03-04T09:00:00')))
    out.append(('no stories', B.ro_doc([], ed_start='2021-03-04T09:00:00')))
    out.append(('no stories, no start', B.ro_doc([])))
    return out


SPACES = [0x09, 0x0A, 0x0B, 0x0C, 0x0D, 0x1C, 0x1D, 0x1E, 0x1F, 0x20, 0x85, 0xA0, 0x1680] + \
    list(range(0x2000, 0x200B)) + [0x2028, 0x2029, 0x202F, 0x205F, 0x3000]
NONSPACES = [0x200B, 0x180E, 0xFEFF, 0x00AD, 0x7F]
XML_INVALID = set(range(0x00, 0x09)) | {0x0B, 0x0C} | set(range(0x0E, 0x20))


def para_texts(rng):
    base = ['(CAMERA 2 WIDE,\nthen MIX TO VT)', '<ASTON one\nASTON two>', '(a\n\nb)', ' (multi\nline) ', '(unclosed\n', 'plain', ' padded ', '(note)', '<tech>', '(half', 'half>', '()', '<>', '(', ')', '( a )', ' (note) ',
            '<a>b', 'a(b)', '(a)(b)', '(a>', '<a)', 'Ünïcödé ☃ 𝄞', 'a & b < c', '', None, '\t', '\n (x) \n',
            'line1\nline2', '　wide　', '​zero-width​', '( )']
    for cp in SPACES:
        if cp in XML_INVALID:
            continue          # cannot occur in parsed XML text; covered by the exhaustive table check
        base.append(chr(cp) + 'x' + chr(cp))
        base.append(chr(cp))
        base.append('(' + chr(cp) + ')')
    for cp in NONSPACES:
        base.append(chr(cp) + '(x)' + chr(cp))
    return base


def script_cases(tier, rng):
    texts = para_texts(rng)
    out = []
    # each paragraph text alone and in a small mix
    for t in texts:
        out.append((f'p={t!r}', B.ro_doc([B.story('A', [B.p(t), B.item('I1'), B.p('tail text')], md=B.timing_md(duration='1'))])))
    # look-alikes nested inside items and metadata: only DIRECT children count
    nested = E('mosExternalMetadata', E('mosSchema', text='v'), E('mosPayload', E('p', text='nested paragraph'),
               E('item', E('itemID', text='nested-item'), E('itemSlug', text='n')), E('story', E('storyID', text='nested'))))
    out.append(('nested look-alikes', B.ro_doc([B.story('A', [B.p('top'), B.item('I1', extra=[nested]), E('em', text='emphasis'),
                                                                  E('p', E('p', text='inner p'), text='outer p'), B.item('I2')], md=B.timing_md(duration='1')),
                                                 B.story('B', [E('i', text='i'), E('temp', text='t'), B.p('b')])])))
    # every interleaving of p / item / other for up to k children
    kinds = ('p', 'item', 'other')
    kmax = 4 if tier == 'quick' else 5
    for k in range(0, kmax + 1):
        for combo in itertools.product(kinds, repeat=k):
            ch = []
            for j, c in enumerate(combo):
                if c == 'p':
                    ch.append(B.p(texts[(j * 7 + k) % len(texts)]))
                elif c == 'item':
                    ch.append(B.item(f'I{j}'))
                else:
                    ch.append(E(['storyNum', 'em', 'i', 'temp', 'te', 'm', 't', 'ite'][(j + k) % 8], text=str(j)))
            out.append((f'interleave {"".join(c[0] for c in combo)}',
                        B.ro_doc([B.story('A', ch), B.story('B', list(reversed(ch)), md=B.timing_md(text_time='2'))])))
    return out


def item_cases():
    """Item read accessors: the note is the first studioCommand of type 'note' ANYWHERE under the item's
    mosPayload; slug / object ID / MOS ID / type absent, blank or repeated."""
    note = lambda text='a note', typ='note', **kw: E('studioCommand', E('text', text=text), attrs={'type': typ} if typ is not None else {}, **kw)
    wrap = lambda *c: E('wrapper', *c)
    payloads = [
        ('direct', [note()]), ('nested once', [wrap(note())]), ('nested twice', [wrap(E('inner', note('deep')))]),
        ('nested before direct', [wrap(note('nested first')), note('direct second')]),
        ('direct before nested', [note('direct first'), wrap(note('nested second'))]),
        ('other type first', [note('cue', typ='cue'), wrap(note('the note'))]),
        ('no type attribute', [note('untyped', typ=None), wrap(wrap(note('typed')))]),
        ('note without text element', [E('studioCommand', attrs={'type': 'note'})]),
        ('note with blank text', [wrap(note(None))]),
        ('upper-case type', [note('upper', typ='NOTE')]),
        ('note inside another note', [E('studioCommand', wrap(note('inner')), attrs={'type': 'note'})]),
        ('empty payload', []),
    ]
    out = []
    for lbl, pl in payloads:
        md = E('mosExternalMetadata', E('mosSchema', text='s'), E('mosPayload', *pl))
        items = [B.item('I1', extra=[md]), B.item('I2'), B.item('I3', extra=[E('mosExternalMetadata', E('mosSchema', text='x')), md])]
        out.append((f'item note: {lbl}', B.ro_doc([B.story('A', [items[0], B.p('text'), items[1], items[2]], md=B.timing_md(duration='1'))])))
    # a note outside mosPayload / outside mosExternalMetadata is not the item's note
    out.append(('item note: outside payload', B.ro_doc([B.story('A', [B.item('I1', extra=[E('mosExternalMetadata', note('outside payload'), E('mosPayload'))]),
                                                                        B.item('I2', extra=[note('outside metadata')])])])))
    for lbl, ch in (('no optional fields', [E('itemID', text='I1')]),
                    ('blank optional fields', [E('itemID', text='I1'), E('itemSlug'), E('objID'), E('mosID'), E('objType')]),
                    ('repeated fields', [E('itemID', text='I1'), E('itemSlug', text='first'), E('itemSlug', text='second'), E('objID', text='o1'),
                                         E('objID', text='o2'), E('objType', text='VIDEO'), E('mosID', text='m')])):
        out.append((f'item fields: {lbl}', B.ro_doc([B.story('A', [E('item', *ch)])])))
    return out


def junk_cases():
    """Outside the domain: unreadable optional data (compared crash kind for crash kind, for information)."""
    out = []
    for lbl, md in (('blank duration', B.timing_md(duration='')), ('junk duration', B.timing_md(duration='abc')),
                    ('junk text time', B.timing_md(text_time='1,5')), ('junk started', B.timing_md(started='not-a-time')),
                    ('blank ended', B.timing_md(ended=''))):
        out.append((f'junk: {lbl}', B.ro_doc([B.story('A', [], md=md)], ed_start='2021-03-04T09:00:00')))
    out.append(('junk: roEdStart', B.ro_doc([B.story('A', [])], ed_start='not-a-time')))
    return out


JUNK_TIMING = ['00:01:30', 'junk', '', '1,5', 'nan', '-inf', '1e400', '12 s']
TIMING_TAGS = ('StoryDuration', 'TextTime', 'MediaTime', 'StoryStarted', 'StoryEnded', 'roEdStart')


def with_junk_timing(tree, rng):
    """The same document with every timing field replaced by something float() / dateutil reject or cannot use."""
    t = list(tree)
    if t[0] in TIMING_TAGS:
        v = rng.choice(JUNK_TIMING)
        t[2] = v if v != '' else None
    t[4] = [with_junk_timing(c, rng) for c in t[4]]
    return t


def text_view(ro):
    """`ro.script` and `ro.body` alone -> {'script', 'body'} or {'crash'}"""
    from . import impl
    import warnings
    try:
        with warnings.catch_warnings():
            warnings.filterwarnings('error', category=DeprecationWarning)
            return {'script': list(ro.script), 'body': body_view(ro.body)}
    except Exception as e:  # noqa: BLE001
        return {'crash': impl.err_name(e).replace('crash:', '')}


def text_route(oc, docs, rng):
    """C17 for the running order's own script / body accessors on ANY running order: as generated, and with every
    timing field turned into junk (script and body have nothing to do with timing metadata)."""
    from . import impl, lean
    recs, obs, reqs = [], [], []
    for lbl, tree in docs:
        for variant, t in (('as generated', tree), ('junk timing', with_junk_timing(tree, rng))):
            text = TJ.to_text(t)
            try:
                ro = impl.load(text)
            except Exception:  # noqa: BLE001
                continue
            if type(ro).__name__ != 'RunningOrder':
                continue
            o = text_view(ro)
            recs.append({'kind': 'access-text', 'ro_text': text, 'label': f'{lbl} [{variant}]: ro.script / ro.body'})
            obs.append(o)
            r = {'op': 'rotext', 'ro': TJ.parse(text)}
            if 'crash' not in o:
                r['impl'] = o
            reqs.append(r)
    for rec, o, r in zip(recs, obs, lean.run_batch(reqs)):
        oc.evaluations += 1
        oc.count('text-route')
        if not r['dom']:
            continue
        oc.in_domain += 1
        if o != r['model']:
            oc.disagreements.append(dict(rec, what='ro.script / ro.body', impl=o, model=r['model']))
        if 'crash' in o or r.get('holds') is not True:
            oc.failing.append(dict(rec, spec='C17: ro.script / ro.body are the concatenation of the stories\' scripts / bodies, whatever the timing metadata says',
                                   impl=o, model=r['model']))


def sources_route(oc, view_of=None):
    """C17 through the other documented ways a running order comes about: read from an S3 object, and merged by a collection
    built from strings (with an encoding declaration the str no longer needs), from files and from S3 - script and body are
    those of the same documents added by hand (paragraphs running over several lines, non-ASCII text, CDATA)."""
    import warnings
    from . import impl, coll_family
    from mosromgr.mostypes import MosFile
    view_of = view_of or text_view
    para = 'Good evening.\nThe headlines tonight:\n  caf\u00e9 owners \u00a320\ttabbed'
    ro_plain = TJ.to_text(B.ro_doc([B.story('A', [B.p(para), B.item('a1'), B.p('(note\nover lines)')], md=B.timing_md(duration='12.5')),
                                    B.story('B', [B.p('second\r\nstory'.replace('\r', ''))], md=B.timing_md(text_time='3', media_time='4'))],
                                   message_id='1', slug='M\u00e9t\u00e9o & Sp\u00e4tnachrichten', ed_start='2021-03-04T09:00:00'))
    ro_plain = ro_plain.replace('<storySlug>slug of A</storySlug>', '<storySlug><![CDATA[Q&A \u00fcber <alles>]]></storySlug>')
    send = TJ.to_text(B.story_send('B', [B.p('Line one\nline two \u00e9'), B.item('b1'), B.p('  padded\n')], message_id='2',
                                   pre=[E('storyNum', text='1')], post=[B.timing_md(duration='5')]))
    for decl, enc in (('', 'utf-8'), ('<?xml version="1.0" encoding="ISO-8859-1"?>', 'iso-8859-1'), ('<?xml version="1.0" encoding="UTF-8"?>\n', 'utf-8')):
        ro_text, send_text = decl + ro_plain, decl + send
        with warnings.catch_warnings():
            warnings.simplefilter('ignore')
            ref_ro = impl.load(ro_plain)
            ref_single = view_of(ref_ro)
            ref_ro += impl.load(send)
            ref_merged = view_of(ref_ro)
        got = {}
        # one document read from an S3 object / a file / bytes
        raw = ro_text.encode(enc)
        coll_family.install_fake_s3(coll_family.FakeS3({'k/ro.mos.xml': raw}))
        for name, mk in (('s3 object', lambda: MosFile.from_s3(bucket_name='b', mos_file_key='k/ro.mos.xml')), ('bytes', lambda: MosFile.from_string(raw)),
                         ('str with declaration', lambda: MosFile.from_string(ro_text))):
            try:
                with warnings.catch_warnings():
                    warnings.simplefilter('ignore')
                    got[name] = (view_of(mk()), ref_single)
            except Exception as e:  # noqa: BLE001
                got[name] = ({'crash': impl.err_name(e)}, ref_single)
        # the two documents merged by a collection
        for via in ('strings', 'files', 's3'):
            o = coll_family.impl_collection([ro_text, send_text], True, False, via=via)
            if o['err'] is None and o['run'] and o['run']['err'] is None:
                with warnings.catch_warnings():
                    warnings.simplefilter('ignore')
                    got['collection from ' + via] = (view_of(impl.load(TJ.to_text(o['run']['ro']))), ref_merged)
            else:
                got['collection from ' + via] = ({'crash': str(o['err'] or (o['run'] or {}).get('err'))}, ref_merged)
        for name, (view, ref) in got.items():
            oc.evaluations += 1
            oc.in_domain += 1
            oc.count('sources-route')
            if view != ref:
                oc.failing.append({'kind': 'access-sources', 'label': f'{name}, declaration {decl[:40]!r}', 'ro_text': ro_text, 'send_text': send_text,
                                   'spec': 'script and body of the running order do not depend on the way its documents came in (S3 object, bytes, str, collection from strings / files / S3)',
                                   'impl': view, 'expected': ref})


def expected_send_body(msg):
    """(story ID, body) a roStorySend must arrive as, read neutrally from the message: the children before the
    first storyBody, the storyBody's children (storyItem as item), the children after it; p -> its text or ''."""
    base = TJ.find(msg, 'roStorySend')
    if base is None:
        return None
    j = next((k for k, c in enumerate(base[4]) if c[0] == 'storyBody'), None)
    if j is None or TJ.find(base[4][j], 'storyID') is not None:
        return None
    kids = base[4][:j] + [(['item'] + c[1:]) if c[0] == 'storyItem' else c for c in base[4][j][4]] + base[4][j + 1:]
    body = []
    for c in kids:
        if c[0] == 'p':
            # a paragraph with inline child elements is outside the claim: any text is accepted in its place
            body.append(('p', None if c[4] else (c[2] or '')))
        elif c[0] == 'item':
            body.append(('item', TJ.child_text(c, 'itemID')))
    return TJ.child_text(base, 'storyID'), body


def same_body(got, expected):
    return len(got) == len(expected) and all(tuple(g) == tuple(e) or (e[0] == 'p' and e[1] is None and g[0] == 'p')
                                             for g, e in zip(got, expected))


def corpus_docs():
    """Minimised past failures of the accessor family (replayed first on every run)."""
    import glob, json, os
    from .core import VERIF
    out = []
    for path in sorted(glob.glob(os.path.join(VERIF, 'corpus', '*.json'))):
        with open(path, encoding='utf-8') as f:
            d = json.load(f)
        if 'access_ro_text' in d:
            out.append(('corpus:' + os.path.basename(path), TJ.parse(d['access_ro_text'])))
    return out


def evaluate(pid, tier, seed):
    from . import impl, lean
    oc = Outcome(pid)
    rng = random.Random(seed * 977 + 3)
    cases = corpus_docs()
    cases += time_cases(tier, rng)
    if pid in ('C15', 'C17'):
        cases += script_cases(tier, rng)
    cases += item_cases()
    cases += junk_cases()
    # G-fuzz: structural mutations of those documents (look-alikes, blanked IDs, duplicates, re-tagged children)
    fz = []
    for lbl, doc in cases:
        if rng.random() < (0.6 if tier == 'quick' else 3.0):
            for _ in range(1 if tier == 'quick' else 3):
                try:
                    m = gen_fuzz.mutate(rng, doc)
                    TJ.to_text(m)
                    fz.append(('fuzz|' + lbl, m))
                except Exception:  # noqa: BLE001
                    pass
    cases += fz
    entries = []       # (label, tree, impl_view, replay record)
    for lbl, doc in cases:
        text = TJ.to_text(doc)
        try:
            ro = impl.load(text)
        except Exception:  # noqa: BLE001 - a mutation can make the document unclassifiable
            continue
        if type(ro).__name__ != 'RunningOrder':
            continue
        entries.append((lbl, TJ.parse(text), read_view(ro), {'kind': 'access', 'ro_text': text, 'label': lbl}))
    # every state of live histories, read on the live object after each step
    n_hist = 60 if tier == 'quick' else 3000
    hists = hist_run.run_histories([seed * 3571 + 11 * k for k in range(n_hist)],
                                   max_steps=10 if tier == 'quick' else 30, views=True, live=True)
    # scripted: a message object added, its content edited in the running order, the same object added again
    hists += hist_run.run_reuse_histories(views=True)
    for h in hists:
        for st in h['steps']:
            if 'view' in st:
                entries.append((f'hist seed={h["seed"]} after step {st["k"]} ({st["cls"]})', st['obs']['ro'], st['view'],
                                {'kind': 'access', 'ro_text': TJ.to_text(st['obs']['ro']),
                                 'label': f'state of history seed={h["seed"]} after step {st["k"]}',
                                 'history': {'seed': h['seed'], 'docs': h['docs'][:st['k'] + 2]},
                                 'live_history': hist_run.live_script(h, st['k'])}))
    for h in hists:
        for st in h['steps']:
            if 'view' in st and 'view' in st['view'] and st['view']['view'].get('dict_ok') is False:
                oc.failing.append({'kind': 'access', 'ro_text': TJ.to_text(st['obs']['ro']), 'live_history': hist_run.live_script(h, st['k']),
                                   'label': f'ro.dict, history seed={h["seed"]} step {st["k"]} ({st["cls"]})', 'dict': True,
                                   'spec': 'the dict accessor does not describe the current document (it differs from the parsed serialisation)'})
    # a roReplace message object is a RunningOrder too (a subclass whose base tag is roReplace): its accessors read
    # like those of the same document sent as a roCreate
    for k in range(12 if tier == 'quick' else 200):
        g = gen_hist.Gen(random.Random(seed * 31 + k))
        rc_doc = g.ro(k % 5)
        text_c = TJ.to_text(rc_doc)
        text_r = text_c.replace('<roCreate>', '<roReplace>').replace('</roCreate>', '</roReplace>').replace('<roCreate ', '<roReplace ')
        try:
            a, b = impl.load(text_c), impl.load(text_r)
        except Exception:  # noqa: BLE001
            continue
        if type(b).__name__ != 'RunningOrderReplace':
            continue
        va, vb = read_view(a), read_view(b)
        oc.evaluations += 1
        oc.count('roReplace-object')
        strip = lambda v: {k_: v_ for k_, v_ in v.get('view', v).items() if k_ != 'dict_ok'} if 'view' in v else v
        if strip(va) != strip(vb):
            oc.failing.append({'kind': 'access', 'ro_text': text_r, 'label': f'accessors of a roReplace object #{k}', 'ro_replace_object': text_c,
                               'spec': 'a RunningOrderReplace object reads like the same document sent as a roCreate (stories, items, script, body, timing)',
                               'impl': {'as_roReplace': project(pid, vb), 'as_roCreate': project(pid, va)}})
    if pid == 'C17':
        # "notably roStorySend bodies": the story a roStorySend delivered lists exactly what was sent
        for h in hists:
            for st in h['steps']:
                if st.get('cls') == 'StorySend' and 'view' in st and 'view' in st['view'] and 'obs' in st \
                        and st['obs']['err'] is None and not st['obs']['warns']:        # (a message object added again delivers the same body again)
                    exp = expected_send_body(TJ.parse(st['msg_text']))
                    if exp is None:
                        continue
                    sid, body = exp
                    got = [sv for sv in st['view']['view']['stories'] if sv['id'] == sid]
                    oc.evaluations += 1
                    oc.count('send-body')
                    brief = lambda b: [(('p', x['p']) if 'p' in x else ('item', x['item']['id'])) for x in b]
                    if not got or not same_body(brief(got[0]['body']), body):
                        oc.failing.append({'kind': 'access', 'ro_text': TJ.to_text(st['obs']['ro']), 'label': f'roStorySend body, history seed={h["seed"]} step {st["k"]}',
                                           'live_history': hist_run.live_script(h, st['k']), 'send_body': {'story': sid, 'expected': body},
                                           'spec': 'the body of the story a roStorySend delivered is what preceded the storyBody, its children in order '
                                                   '(storyItem as item, an empty paragraph as the empty string), then what followed it',
                                           'impl': brief(got[0]['body']) if got else None})
    for h in hists:
        for st in h['steps']:
            if st.get('held_mismatch'):
                oc.failing.append({'kind': 'access', 'ro_text': TJ.to_text(st['obs']['ro']), 'live_history': hist_run.live_script(h, st['k']),
                                   'label': f'held Story object, history seed={h["seed"]} step {st["k"]} ({st["cls"]})', 'held': True,
                                   'spec': 'a Story object fetched before a merge reads differently from a freshly fetched one for the same element '
                                           '(accessors agree with the document in every reachable state)', 'impl': st['held_mismatch']})
    reqs = [{'op': 'access', 'ro': t, 'impl': v} for (_, t, v, _) in entries]
    resps = lean.run_batch(reqs)
    for (lbl, tree, view, rec), r in zip(entries, resps):
        oc.evaluations += 1
        dom = r['dom']['WfAcc']
        oc.count('in-domain' if dom else 'outside-domain')
        oc.count('impl:' + ('view' if 'view' in view else 'crash:' + view['crash']))
        if not dom:
            if view != r['model']:
                oc.count('info:model-differs-outside-domain')
            continue
        oc.in_domain += 1
        pi, pm = project(pid, view), project(pid, r['model'])
        if pi != pm:
            oc.disagreements.append(dict(rec, what=f'projection of {pid}', impl=pi, model=pm))
        # C15 is "every documented read accessor ... agrees with the document": script, body and the timing accessors are
        # read accessors too, so C15 asks for all three specifications
        hs = r.get('holds', {})
        ok = 'view' in view and (hs.get(pid, False) if pid != 'C15' else all(hs.get(k_, False) for k_ in ('C15', 'C16', 'C17')))
        if not ok:
            oc.failing.append(dict(rec, spec=pid, impl=pi, model=pm, holds=r.get('holds')))
        n_st = len(view['view']['stories']) if 'view' in view else 0
        oc.count(f'stories={min(n_st, 6)}')
        if n_st:
            h = stable_hash(tree)
            if h not in oc.nontrivial:
                oc.nontrivial.add(h)
                if len(oc.samples) < 4 and len(oc.nontrivial) % 41 == 1:
                    oc.samples.append({'label': lbl, 'ro': rec['ro_text'][:1500], 'view': pi})
    if pid == 'C17':
        spaces_check(oc)
        text_route(oc, [(lbl, tree) for lbl, tree, _, _ in entries[:(400 if tier == 'quick' else 4000)]], rng)
        sources_route(oc)
    if pid in ('C15', 'C16'):
        sources_route(oc, view_of=read_view)
    if pid == 'C16':
        numbers_check(oc, seed)
    oc.rule = {
        'C15': 'running orders with every subset of the optional timing fields per story (enumerated for one story, sampled for 2-5), paragraph/item interleavings, and every state of live random histories; non-trivial = at least one story; distinct by tree hash',
        'C16': 'the same timing documents and history states; non-trivial = at least one story',
        'C17': 'paragraph texts (all 29 whitespace code points, brackets, half brackets, Unicode), every interleaving of p/item/other up to k children, every state of live random histories; plus the exhaustive whitespace-table check over all scalar values',
    }[pid]
    return oc


def project(pid, v):
    if 'view' not in v:
        return v
    w = v['view']
    if pid == 'C15':
        return {'view': {'ro_slug': w['ro_slug'], 'completed': w['completed'], 'script': w['script'], 'body': w['body'],
                         'story_scripts': [s['script'] for s in w['stories']], 'timing': [[s[k] for k in ('duration', 'offset', 'start', 'stop')] for s in w['stories']],
                         'ro_timing': [w['start'], w['stop'], w['duration']],
                         'stories': [{'id': s['id'], 'slug': s['slug'], 'items': s['items'],
                                      'none': [k for k in ('duration', 'offset', 'start', 'stop') if s[k] is None]}
                                     for s in w['stories']],
                         'none': [k for k in ('start', 'stop', 'duration') if w[k] is None]}}
    if pid == 'C16':
        return {'view': {'start': w['start'], 'stop': w['stop'], 'duration': w['duration'],
                         'stories': [{k: s[k] for k in ('id', 'duration', 'offset', 'start', 'stop')} for s in w['stories']]}}
    return {'view': {'script': w['script'], 'body': w['body'],
                     'stories': [{'script': s['script'], 'body': s['body']} for s in w['stories']]}}


def numbers_check(oc, seed=0):
    """The model's number literals against the interpreter's: `pyFloatAccepts` vs `float()` raising, the value models
    `pyFloat` / `pyInt` vs the values, on every string up to length 4 over the characters that matter, a list of
    known corners and seeded longer strings; and, for every scalar value, whether int()/float() strip it."""
    import itertools, random
    from fractions import Fraction
    from . import lean
    alpha = ['0', '1', '.', 'e', '+', '-', '_', ' ', 'n', 'a', 'i', 'f']
    strings = [''.join(t) for n in range(0, 5) for t in itertools.product(alpha, repeat=n)]
    strings += ['nan', 'NaN', 'inf', '-inf', '+Infinity', 'infinity', 'INF', 'iNfInItY', 'infinit', 'infinity1', '1inf', 'nane', '-nan',
                '1e400', '1e-400', '1e15', '-60', '9' * 40, '9' * 400, '1_000', '1__0', '_1', '1_', '1._5', '1_.5', '1.', '.5', '.',
                ' 1 ', '1e', 'e5', '1e+5', '1E-5', '1e5.0', '0x10', '1.2.3', '+-1', '--1', '+ 1', '1 2', '1e1_0', '1_0.0_1e1_1',
                '1\n', '\x0c1', '1\x1f', '\x1c1', '1\x85', '1\xa0', '\u20031', '-.5e-3', '+.e1', '1.e1', '0_0', '00', '0e0', '1_e1',
                '1e_1', '1e+_1', '1e1_', '._1', '1.1_1', '1._', '12.25', '0.125', '33.333333', '0.1234567', '007', '\t4\n', '4294967296',
                '1,5', '1 000', '١٢', '１２', '½', '1e٣']
    rng = random.Random(seed * 7919 + 5)
    wide = alpha + ['9', 'E', 'N', 'A', 'I', 'F', 'y', 't', 'x', '\t', '\n', '5']
    strings += [''.join(rng.choice(wide) for _ in range(rng.randrange(5, 12))) for _ in range(4000)]
    # well-formed literals with long digit runs, separators and exponents (random strings are almost never accepted)
    def lit():
        d = lambda: '_'.join(''.join(rng.choice('0123456789') for _ in range(rng.randrange(1, 5))) for _ in range(rng.randrange(1, 3)))
        m = rng.choice([d(), d() + '.', '.' + d(), d() + '.' + d()])
        e = rng.choice(['', '', 'e' + rng.choice(['', '+', '-']) + str(rng.randrange(0, 12)), 'E' + rng.choice(['1_0', '0_3', '2', '+1_1'])])
        return rng.choice(['', '', ' ', '\n\t']) + rng.choice(['', '', '+', '-']) + m + e + rng.choice(['', '', ' ', '\r\n'])
    strings += [lit() for _ in range(3000)]
    res = lean.run_batch([{'op': 'numbers', 'strings': strings}])[0]['numbers']
    bad = []
    accepted = outside = 0
    for s, r in zip(strings, res):
        oc.evaluations += 1
        try:
            v = float(s)
            ok = True
        except ValueError:
            v, ok = None, False
        non_ascii = any(ord(c) > 127 and not c.isspace() for c in s)
        if non_ascii:
            outside += 1                      # non-ASCII decimal digits: not modelled (stated in the model)
            continue
        accepted += ok
        if r['accepts'] != ok:
            bad.append({'string': s, 'python_float_accepts': ok, 'model_accepts': r['accepts']})
        if r['float'] is not None and r['float'] >= 10 ** 15:
            outside += 1                      # beyond 10^9 s the value model (exact, unbounded) is not a model of a double: stated limit
        elif r['float'] is not None:
            n = r['float']
            if not ok or v != v or v in (float('inf'), float('-inf')) or abs(Fraction(v) * 10 ** 6 - n) > max(Fraction(1, 1000), Fraction(n, 2 ** 50)):
                bad.append({'string': s, 'python_float': repr(v), 'model_microseconds': n})
        try:
            iv = int(s)
        except ValueError:
            iv = None
        if iv is not None and s.strip().startswith('-'):
            outside += 1                      # a minus sign in int(): not modelled (stated in the model)
        elif r['int'] != iv:
            bad.append({'string': s, 'python_int': iv, 'model_int': r['int']})
    model_sp = set(lean.run_batch([{'op': 'numspaces'}])[0]['spaces'])
    py_sp = set()
    for cp in range(0x110000):
        if 0xD800 <= cp <= 0xDFFF:
            continue
        ch = chr(cp)
        f = i = True
        try:
            float(ch + '1' + ch)
        except ValueError:
            f = False
        try:
            int(ch + '1' + ch)
        except ValueError:
            i = False
        if f != i:
            bad.append({'scalar': cp, 'float_strips': f, 'int_strips': i})
        if f:
            py_sp.add(cp)
    # (a decimal digit of another script around '1' is accepted too: those are digits, not blanks)
    py_sp = {cp for cp in py_sp if chr(cp).isspace()}
    if model_sp != py_sp:
        bad.append({'what': 'blanks stripped by int()/float()', 'only_python': sorted(py_sp - model_sp)[:20], 'only_model': sorted(model_sp - py_sp)[:20]})
    oc.evaluations += 1
    oc.extra['number_literals'] = {'strings': len(strings), 'accepted_by_float': accepted, 'outside_model': outside,
                                   'exhaustive_up_to_length': 4, 'alphabet': ''.join(alpha), 'scalar_values_checked_for_stripping': 0x110000 - 0x800,
                                   'stripped_by_float_and_int': len(py_sp)}
    for b in bad[:20]:
        oc.disagreements.append(dict(b, kind='numbers', what='number literal: the model and the interpreter read it differently'))


def spaces_check(oc):
    """Exhaustive: the model's whitespace table against str.isspace / str.strip for every scalar value."""
    from . import lean
    model = set(lean.run_batch([{'op': 'spaces'}])[0]['spaces'])
    py = set()
    bad_strip = []
    for cp in range(0x110000):
        if 0xD800 <= cp <= 0xDFFF:
            continue
        ch = chr(cp)
        if ch.isspace():
            py.add(cp)
        if ((ch + 'x' + ch).strip() == 'x') != ch.isspace():
            bad_strip.append(cp)
    oc.extra['whitespace_table'] = {'scalar_values_checked': 0x110000 - 0x800, 'python_isspace': len(py),
                                    'model_isspace': len(model), 'exhaustive': True}
    oc.evaluations += 1
    if model != py or bad_strip:
        oc.disagreements.append({'kind': 'spaces', 'what': 'whitespace table',
                                 'only_python': sorted(py - model)[:20], 'only_model': sorted(model - py)[:20],
                                 'strip_disagrees_with_isspace': bad_strip[:20]})


def replay(pid, fl):
    from . import impl, lean
    if fl.get('ro_replace_object'):
        va, vb = read_view(impl.load(fl['ro_replace_object'])), read_view(impl.load(fl['ro_text']))
        strip = lambda v: {k_: v_ for k_, v_ in v.get('view', v).items() if k_ != 'dict_ok'} if 'view' in v else v
        if strip(va) != strip(vb):
            print(f'VIOLATION property={pid} replay=(this file): still fails on the current tree')
            return 1
        print(f'{pid}: the recorded input no longer fails on the current tree')
        return 0
    if fl.get('dict'):
        ro = hist_run.replay_live(fl['live_history'], want_object=True)
        import xmltodict
        if ro.dict != xmltodict.parse(str(ro)):
            print(f'VIOLATION property={pid} replay=(this file): still fails on the current tree')
            return 1
        print(f'{pid}: the recorded input no longer fails on the current tree')
        return 0
    if fl.get('held'):
        # wrappers held across the last step of the recorded live history
        lh = fl['live_history']
        ro = impl.load(lh['ro_text'])
        objects, held = {}, []
        for st in lh['script']:
            held = hold(ro)
            for hs in held:
                try:
                    hs.body, hs.script, hs.items, hs.duration
                except Exception:  # noqa: BLE001
                    pass
            if st['obj'] is None:
                continue
            if st['obj'] not in objects:
                objects[st['obj']] = impl.load(st['msg_text'])
            impl.add(ro, objects[st['obj']], via=st['via'])
        mm = held_mismatch(held, ro)
        print(mm)
        if mm:
            print(f'VIOLATION property={pid} replay=(this file): still fails on the current tree')
            return 1
        print(f'{pid}: the recorded input no longer fails on the current tree')
        return 0
    if 'live_history' in fl:
        # a state of a live history (message objects may have been added twice): rebuild the live object
        ro = hist_run.replay_live(fl['live_history'], want_object=True)
        tree = TJ.to_tree(ro.xml)
    else:
        ro = impl.load(fl['ro_text'])
        tree = TJ.parse(fl['ro_text'])
    view = read_view(ro)
    if 'send_body' in fl:
        sb = fl['send_body']
        got = [sv for sv in view.get('view', {}).get('stories', []) if sv['id'] == sb['story']]
        brief = lambda b: [[('p', x['p']) if 'p' in x else ('item', x['item']['id'])][0] for x in b]
        ok = bool(got) and same_body(brief(got[0]['body']), [tuple(x) for x in sb['expected']])
        print({'expected': sb['expected'], 'impl': brief(got[0]['body']) if got else None})
        if not ok:
            print(f'VIOLATION property={pid} replay=(this file): still fails on the current tree')
            return 1
        print(f'{pid}: the recorded input no longer fails on the current tree')
        return 0
    r = lean.run_batch([{'op': 'access', 'ro': tree, 'impl': view}])[0]
    import json
    print(json.dumps({'impl': project(pid, view), 'model': project(pid, r['model']), 'dom': r['dom'], 'holds': r.get('holds')},
                     indent=1, ensure_ascii=False)[:4000])
    hs = r.get('holds', {})
    bad = r['dom']['WfAcc'] and (('view' not in view) or not (hs.get(pid, False) if pid != 'C15' else all(hs.get(k_, False) for k_ in ('C15', 'C16', 'C17')))
                                 or project(pid, view) != project(pid, r['model']))
    if bad:
        print(f'VIOLATION property={pid} replay=(this file): still fails on the current tree')
        return 1
    print(f'{pid}: the recorded input no longer fails on the current tree')
    return 0


def replay_text(pid, fl):
    import random
    oc = Outcome(pid)
    from . import impl
    ro = impl.load(fl['ro_text'])
    o = text_view(ro)
    from . import lean
    r = {'op': 'rotext', 'ro': TJ.parse(fl['ro_text'])}
    if 'crash' not in o:
        r['impl'] = o
    res = lean.run_batch([r])[0]
    print({'impl': o, 'holds': res.get('holds')})
    if res['dom'] and ('crash' in o or res.get('holds') is not True):
        print(f'VIOLATION property={pid} replay=(this file): still fails on the current tree')
        return 1
    print(f'{pid}: the recorded input no longer fails on the current tree')
    return 0


def replay_sources(pid, fl):
    oc = Outcome(pid)
    sources_route(oc, view_of=None if pid == 'C17' else read_view)
    if oc.failing:
        print(f'VIOLATION property={pid} replay=(this file): still fails on the current tree')
        return 1
    print(f'{pid}: the recorded input no longer fails on the current tree')
    return 0
