"""Build the Lean project and talk to the compiled model driver (batch mode)."""
import json
import os
import shutil
import subprocess
import tempfile
import time
from concurrent.futures import ThreadPoolExecutor

VERIF = os.path.dirname(os.path.dirname(os.path.abspath(__file__)))
LEAN_DIR = os.path.join(VERIF, 'lean')
DRIVER = os.path.join(LEAN_DIR, '.lake', 'build', 'bin', 'driver')


class InfraError(Exception):
    """Infrastructure failure (exit code 2): never reported as a violation."""


def lake_build(timeout=3000):
    """(ok, seconds, output).  A no-op build takes ~0.3 s."""
    import fcntl
    t0 = time.time()
    # concurrent checks must not run `lake build` in the same directory at the same time
    with open(os.path.join(LEAN_DIR, '.build.lock'), 'w') as lock:
        fcntl.flock(lock, fcntl.LOCK_EX)
        try:
            p = subprocess.run(['lake', 'build'], cwd=LEAN_DIR, stdout=subprocess.PIPE,
                               stderr=subprocess.STDOUT, text=True, timeout=timeout)
        except subprocess.TimeoutExpired as e:
            raise InfraError(f'lake build timed out: {e}')
        finally:
            fcntl.flock(lock, fcntl.LOCK_UN)
    return p.returncode == 0, time.time() - t0, p.stdout


import contextlib


@contextlib.contextmanager
def build_lock():
    """The lock `lake_build` takes: held by anything that reads the compiled .olean files for a while."""
    import fcntl
    with open(os.path.join(LEAN_DIR, '.build.lock'), 'w') as lock:
        fcntl.flock(lock, fcntl.LOCK_EX)
        try:
            yield
        finally:
            fcntl.flock(lock, fcntl.LOCK_UN)


def olean_digest():
    """Identity of the compiled library: names, sizes and contents of every .olean of the project."""
    import hashlib
    root = os.path.join(LEAN_DIR, '.lake', 'build', 'lib', 'lean')
    h = hashlib.sha256()
    for d, _, files in sorted(os.walk(root)):
        for fn in sorted(files):
            if fn.endswith('.olean'):
                path = os.path.join(d, fn)
                h.update(os.path.relpath(path, root).encode())
                with open(path, 'rb') as f:
                    h.update(hashlib.sha256(f.read()).digest())
    return h.hexdigest()


def _run_chunk(args):
    lines, idx, workdir = args
    inp = os.path.join(workdir, f'req{idx}.jsonl')
    outp = os.path.join(workdir, f'resp{idx}.jsonl')
    with open(inp, 'w', encoding='utf-8') as f:
        for l in lines:
            f.write(l)
            f.write('\n')
    p = subprocess.run([DRIVER, inp, outp], stdout=subprocess.PIPE, stderr=subprocess.STDOUT,
                       text=True, timeout=3000)
    if p.returncode != 0:
        raise InfraError(f'driver failed ({p.returncode}): {p.stdout[-2000:]}')
    with open(outp, encoding='utf-8') as f:
        out = [json.loads(l) for l in f]
    if len(out) != len(lines):
        raise InfraError(f'driver answered {len(out)} of {len(lines)} requests')
    return out


def run_batch(requests, jobs=None):
    """Send the request objects to the driver; returns the list of response objects."""
    if not requests:
        return []
    for _ in range(60):                      # the binary is briefly absent while `lake build` relinks it
        if os.path.exists(DRIVER):
            break
        time.sleep(1)
    else:
        raise InfraError(f'driver not built: {DRIVER}')
    jobs = jobs or min(16, max(1, len(requests) // 200))
    lines = [json.dumps(r, ensure_ascii=False, separators=(',', ':')) for r in requests]
    workdir = tempfile.mkdtemp(prefix='mrm-driver-')
    try:
        n = len(lines)
        step = (n + jobs - 1) // jobs
        chunks = [(lines[i:i + step], k, workdir) for k, i in enumerate(range(0, n, step))]
        with ThreadPoolExecutor(max_workers=jobs) as ex:
            parts = list(ex.map(_run_chunk, chunks))
        out = [r for part in parts for r in part]
    finally:
        shutil.rmtree(workdir, ignore_errors=True)
    for r in out:
        if 'error' in r:
            raise InfraError(f'driver error: {r["error"]}')
    return out
