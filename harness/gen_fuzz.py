"""G-fuzz: random structural mutations of generated documents (unusual but well-formed XML):
blanked / duplicated / removed / look-alike / re-tagged children, attributes, tails.  Widens what the
correspondence sees beyond the shapes the hand-written generators think of; results outside a
property's domain are compared for information only."""
import copy
import random

from .treejson import E

LOOKALIKES = ['item', 'p', 'story', 'storyID', 'itemID', 'storySlug', 'itemSlug', 'element_source', 'element_target',
              'mosExternalMetadata', 'mosPayload', 'roEdStart', 'roSlug', 'roID', 'storyBody', 'storyItem', 'messageID',
              'StoryDuration', 'TextTime', 'em', 'temp', 'roCreate', 'mosromgrmeta']


def _nodes(t, path=()):
    yield t, path
    for i, c in enumerate(t[4]):
        yield from _nodes(c, path + (i,))


def mutate_once(rng, doc, protect_root=True):
    doc = copy.deepcopy(doc)
    nodes = list(_nodes(doc))
    node, path = rng.choice(nodes)
    op = rng.choice(['blank', 'dup', 'drop', 'look', 'attr', 'tail', 'swap', 'retag', 'text'])
    if op == 'blank':
        ids = [n for n, _ in nodes if n[0].endswith('ID') or n[0].endswith('Slug')]
        if ids:
            rng.choice(ids)[2] = None
    elif op == 'dup' and node[4]:
        k = rng.randrange(len(node[4]))
        node[4].insert(rng.randrange(len(node[4]) + 1), copy.deepcopy(node[4][k]))
    elif op == 'drop' and node[4] and (path or not protect_root):
        node[4].pop(rng.randrange(len(node[4])))
    elif op == 'look':
        tag = rng.choice(LOOKALIKES)
        kid = E(tag, text=rng.choice([None, 'A', 'I1', 'x', '3', '2021-03-04T09:00:00']))
        if rng.random() < 0.3:
            kid[4].append(E(rng.choice(LOOKALIKES), text='A'))
        node[4].insert(rng.randrange(len(node[4]) + 1), kid)
    elif op == 'attr':
        node[1].append([rng.choice(['a', 'type', 'operation', 'id']), rng.choice(['v', 'note', 'MOVE', '"q"'])])
        seen = set()
        node[1][:] = [kv for kv in node[1] if not (kv[0] in seen or seen.add(kv[0]))]
    elif op == 'tail' and path:
        node[3] = rng.choice(['\n  ', ' t ', None])
    elif op == 'swap' and len(node[4]) >= 2:
        i, j = rng.sample(range(len(node[4])), 2)
        node[4][i], node[4][j] = node[4][j], node[4][i]
    elif op == 'retag' and path and len(path) >= 2:
        node[0] = rng.choice(LOOKALIKES)
    elif op == 'text':
        node[2] = rng.choice([None, 'txt', ' (n) ', '12', 'A'])
    return doc


def mutate(rng, doc, k=None):
    for _ in range(k or rng.randrange(1, 4)):
        doc = mutate_once(rng, doc)
    return doc


def with_tails(doc, prefix='t'):
    """The same document as mixed content: every element below the root gets its own tail text
    (what pretty-printing or mixed text leaves there), so that a lost, moved or copied tail shows."""
    doc = copy.deepcopy(doc)
    n = [0]

    def go(t, top):
        for c in t[4]:
            go(c, False)
        if not top:
            n[0] += 1
            t[3] = f' {prefix}{n[0]} '

    go(doc, True)
    return doc
