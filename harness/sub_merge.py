"""Run `ro += msg` for recorded (running order text, message text) pairs in THIS (fresh) interpreter,
in the order given; used to compare with what the long-lived checking process observed.
  python [-O] [-W ...] -m harness.sub_merge in.json out.json [ambient]
`ambient`: warnings are recorded under the interpreter's own filter configuration (whatever -W and the
library's import left in place) instead of the harness's simplefilter('always')."""
import json
import sys
import warnings


def main():
    inp, outp = sys.argv[1], sys.argv[2]
    ambient = len(sys.argv) > 3 and sys.argv[3] == 'ambient'
    from harness import impl, treejson
    with open(inp) as f:
        pairs = json.load(f)
    res = []
    for ro_text, msg_text in pairs:
        try:
            ro, mo = impl.load(ro_text), impl.load(msg_text)
        except Exception as e:  # noqa: BLE001 - the documents were read by the long-lived process
            res.append({'err': 'not-read:' + str(impl.err_name(e)), 'warns': [], 'text': None})
            continue
        if ambient:
            err = None
            with warnings.catch_warnings(record=True) as w:
                try:
                    ro + mo
                except Exception as e:  # noqa: BLE001
                    err = impl.err_name(e)
            res.append({'err': err, 'warns': impl.lib_warnings(w), 'text': str(ro)})
        else:
            o = impl.add(ro, mo)
            res.append({'err': o['err'], 'warns': o['warns'], 'text': str(ro)})
    with open(outp, 'w') as f:
        json.dump({'results': res, 'optimize': sys.flags.optimize}, f)


if __name__ == '__main__':
    main()
