"""Run `ro += msg` for recorded (running order text, message text) pairs in THIS (fresh) interpreter,
in the order given; used by the C13 check to compare with what a long-lived process produced."""
import json
import sys


def main():
    inp, outp = sys.argv[1], sys.argv[2]
    from harness import impl
    with open(inp) as f:
        pairs = json.load(f)
    res = []
    for ro_text, msg_text in pairs:
        try:
            ro, mo = impl.load(ro_text), impl.load(msg_text)
        except Exception as e:  # noqa: BLE001 - the documents were read by the long-lived process
            res.append({'err': 'not-read:' + str(impl.err_name(e)), 'warns': [], 'text': None})
            continue
        o = impl.add(ro, mo)
        res.append({'err': o['err'], 'warns': o['warns'], 'text': str(ro)})
    with open(outp, 'w') as f:
        json.dump({'results': res}, f)


if __name__ == '__main__':
    main()
