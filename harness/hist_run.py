"""Run state-aware random histories on the real implementation (live objects)."""
import multiprocessing as mp
import os
import random

from . import gen_hist, treejson as TJ


def run_history(args):
    """One history: returns dict(ro_text, steps=[{ro_before(tree), msg_text, cls, obs | classify_err,
    completed_before, completed_after}], docs=[texts], ids=[ints])."""
    seed, max_steps, with_delete, views = args
    from . import impl, build as B
    rng = random.Random(seed)
    g = gen_hist.Gen(rng)
    n = rng.randrange(1, max_steps + 1)
    ro_tree = g.ro(rng.randrange(0, 5))
    ro_text = TJ.to_text(ro_tree)
    ro = impl.load(ro_text)
    ids = gen_hist.message_ids(rng, n)
    delete_at = rng.randrange(0, n) if (with_delete and rng.random() < 0.5) else None
    steps = []
    docs = [ro_text]
    for k in range(n):
        state = TJ.to_tree(ro.xml)
        if k == delete_at:
            cls, msg = 'RunningOrderEnd', B.ro_delete(message_id=str(ids[k]))
        else:
            cls, msg = gen_hist.random_message(g, state, ids[k])
        msg_text = TJ.to_text(msg)
        docs.append(msg_text)
        step = {'ro_before': state, 'msg_text': msg_text, 'cls': cls, 'k': k,
                'completed_before': bool(ro.completed)}
        kc = impl.classify_text(msg_text)
        if 'err' in kc:
            step['classify_err'] = kc['err']
        else:
            mo = impl.load(msg_text)
            step['obs'] = impl.add(ro, mo)
            step['kind'] = kc['kind']
            step['completed_after'] = bool(ro.completed)
            step['msg_after'] = str(mo)
            step['msg_unchanged'] = (TJ.to_tree(mo.xml) == TJ.parse(msg_text))
            if views:
                from . import access_family
                step['view'] = access_family.read_view(ro)
        steps.append(step)
    return {'seed': seed, 'ro_text': ro_text, 'steps': steps, 'docs': docs, 'ids': [1] + ids}


def run_histories(seeds, max_steps=12, with_delete=True, jobs=None, views=False):
    args = [(s, max_steps, with_delete, views) for s in seeds]
    jobs = 1 if os.environ.get('VERIF_COVERAGE') else (jobs or min(16, os.cpu_count() or 1))
    if len(args) < 8 or jobs == 1:
        return [run_history(a) for a in args]
    ctx = mp.get_context('fork')
    with ctx.Pool(jobs) as pool:
        return pool.map(run_history, args, chunksize=max(1, len(args) // (jobs * 4)))


def history_cases(hists):
    """Merge-step cases (with the live implementation's observation attached)."""
    out = []
    for h in hists:
        for st in h['steps']:
            if 'obs' not in st:
                continue
            out.append({'family': 'hist', 'cls': st['kind'], 'label': f'hist:seed={h["seed"]}:step={st["k"]}:{st["cls"]}',
                        'ro': st['ro_before'], 'msg': TJ.parse(st['msg_text']), 'msg_text': st['msg_text'],
                        'impl': dict(st['obs'], kind=st['kind'])})
    return out
