"""Run state-aware random histories on the real implementation (live objects)."""
import multiprocessing as mp
import os
import random

from . import gen_hist, treejson as TJ


def run_history(args):
    """One history: returns dict(ro_text, steps=[{ro_before(tree), msg_text, cls, obs | classify_err,
    completed_before, completed_after}], docs=[texts], ids=[ints])."""
    seed, max_steps, with_delete, views, live = args
    from . import impl, build as B
    rng = random.Random(seed)
    # `live`: the history is only ever run on live objects (never fed to a collection as texts), so it
    # may also use odd message IDs, add the same message *object* again and call msg.merge(ro) directly
    g = gen_hist.Gen(rng, odd_message_ids=live, corner_durations=not views)        # (accessor views need usable timing values)
    all_direct = live and rng.random() < 0.2
    n = rng.randrange(1, max_steps + 1)
    ro_tree = g.ro(rng.randrange(0, 5))
    ro_text = TJ.to_text(ro_tree)
    kr = impl.classify_text(ro_text)
    if kr != {'kind': 'RunningOrder'}:
        # the library does not read this running-order document as one: reported by the caller
        return {'seed': seed, 'ro_text': ro_text, 'steps': [], 'docs': [ro_text], 'ids': [1], 'ro_load': kr}
    ro = impl.load(ro_text)
    ids = gen_hist.message_ids(rng, n)
    delete_at = rng.randrange(0, n) if (with_delete and rng.random() < 0.5) else None
    steps = []
    docs = [ro_text]
    objects = []           # (class label, text, live message object) of earlier steps
    for k in range(n):
        state = TJ.to_tree(ro.xml)
        mo = None
        held = None
        if views:
            from . import access_family
            held = access_family.hold(ro)
            for hs in held:                # read once, as a caller listing the stories would
                try:
                    hs.body, hs.script, hs.items, hs.duration
                except Exception:  # noqa: BLE001
                    pass
        if live:
            str(ro), ro.completed          # whatever the object caches must not go stale
        obj = None
        if live and objects and rng.random() < 0.08:
            obj = rng.randrange(len(objects))
            cls, msg_text, mo = objects[obj]      # the same message object is added again
        elif k == delete_at:
            cls, msg = 'RunningOrderEnd', B.ro_delete(message_id=str(ids[k]))
            msg_text = TJ.to_text(msg).replace(gen_hist.CR, '&#13;')
        else:
            cls, msg = gen_hist.random_message(g, state, ids[k])
            msg_text = TJ.to_text(msg).replace(gen_hist.CR, '&#13;')
        docs.append(msg_text)
        step = {'ro_before': state, 'msg_text': msg_text, 'cls': cls, 'k': k,
                'completed_before': bool(ro.completed), 'reused_object': mo is not None}
        kc = impl.classify_text(msg_text)
        if 'err' in kc:
            step['classify_err'] = kc['err']
        else:
            if mo is None:
                mo = impl.load(msg_text)
                obj = len(objects)
                objects.append((cls, msg_text, mo))
            step['obj'] = obj
            # (msg.merge(ro) on a COMPLETED running order bypasses the guard of `+`; the accessor checks follow it there too,
            # the merge-family checks do not: the model of `+` refuses)
            direct = live and ((not step['completed_before'] and (all_direct or rng.random() < 0.12)) or (views and step['completed_before'] and rng.random() < 0.4))
            step['obs'] = impl.add(ro, mo, via='merge' if direct else 'add')
            step['via'] = 'merge' if direct else 'add'
            step['kind'] = kc['kind']
            step['completed_after'] = bool(ro.completed)
            step['msg_after'] = str(mo)
            step['msg_unchanged'] = (TJ.to_tree(mo.xml) == TJ.parse(msg_text))
            if views:
                from . import access_family
                step['view'] = access_family.read_view(ro)
                step['held_mismatch'] = access_family.held_mismatch(held or [], ro)
        steps.append(step)
    return {'seed': seed, 'ro_text': ro_text, 'steps': steps, 'docs': docs, 'ids': [1] + ids}


def run_histories(seeds, max_steps=12, with_delete=True, jobs=None, views=False, live=False):
    args = [(s, max_steps, with_delete, views, live) for s in seeds]
    jobs = 1 if os.environ.get('VERIF_COVERAGE') else (jobs or min(16, os.cpu_count() or 1))
    if len(args) < 8 or jobs == 1:
        return [run_history(a) for a in args]
    ctx = mp.get_context('fork')
    with ctx.Pool(jobs) as pool:
        return pool.map(run_history, args, chunksize=max(1, len(args) // (jobs * 4)))


def history_cases(hists):
    """Merge-step cases (with the live implementation's observation attached)."""
    out = []
    for h in hists:
        if h.get('ro_load'):
            from . import build as B
            msg = B.ready_to_air(message_id='2')
            out.append({'family': 'hist', 'cls': 'ReadyToAir', 'label': f'hist:seed={h["seed"]}:running order not loadable',
                        'ro': TJ.parse(h['ro_text']), 'msg': msg, 'msg_text': TJ.to_text(msg),
                        'impl': {'ro_load': h['ro_load'], 'kind': 'ReadyToAir'}})
            continue
        script = []
        special = isinstance(h['seed'], str)        # scripted histories: the step may depend on the steps before it
        for st in h['steps']:
            script.append({'msg_text': st['msg_text'], 'obj': st.get('obj'), 'via': st.get('via', 'add')})
            if 'obs' not in st:
                continue
            c = {'family': 'hist', 'cls': st['kind'], 'label': f'hist:seed={h["seed"]}:step={st["k"]}:{st["cls"]}',
                 'hist_id': str(h['seed']), 'k': st['k'], 'history_script': {'ro_text': h['ro_text'], 'script': list(script)},
                 'ro': st['ro_before'], 'msg': TJ.parse(st['msg_text']), 'msg_text': st['msg_text'],
                 'impl': dict(st['obs'], kind=st['kind'])}
            special = special or bool(st.get('reused_object')) or st.get('via') == 'merge'
            if special:
                # the step is only reproduced by the live history (object re-use / msg.merge(ro))
                c['label'] += ':live(%s%s)' % ('reused-object ' if st.get('reused_object') else '', st.get('via', 'add'))
                c['live_history'] = {'ro_text': h['ro_text'], 'script': list(script)}
            out.append(c)
    return out


def live_script(h, k):
    """The live history of `h` up to and including step k (for replay files)."""
    return {'ro_text': h['ro_text'],
            'script': [{'msg_text': st['msg_text'], 'obj': st.get('obj'), 'via': st.get('via', 'add')} for st in h['steps'][:k + 1]]}


def replay_live(live_history, want_object=False):
    """Re-run a recorded live history (same object re-use, same routes); returns the last step's
    (tree before, observation) - or the live running order itself."""
    from . import impl
    ro = impl.load(live_history['ro_text'])
    objects = {}
    before, obs = None, None
    for st in live_history['script']:
        str(ro), ro.completed
        before = TJ.to_tree(ro.xml)
        if st['obj'] is None:
            obs = None
            continue
        if st['obj'] not in objects:
            objects[st['obj']] = impl.load(st['msg_text'])
        mo = objects[st['obj']]
        obs = impl.add(ro, mo, via=st['via'])
        obs['kind'] = type(mo).__name__
    if want_object:
        return ro
    return before, obs


# ---- scripted histories: a message object added, its content edited in the running order, then the
# ---- same object added again (to the same running order, after a roReplace restored it) ----------

def _reuse_plans():
    from . import build as B
    from .treejson import E

    def ro():
        return B.ro_doc([B.story('S1', [B.item('a1'), B.p('one'), B.item('a2')], md=B.timing_md(duration='3')),
                         B.story('S2', [B.item('b1')], md=B.timing_md(text_time='2.5'))], message_id='1', ed_start='2021-03-04T09:00:00')

    def rr(mid):
        return B.ro_replace([B.story('S1', [B.item('a1'), B.p('one'), B.item('a2')], md=B.timing_md(duration='3')),
                             B.story('S2', [B.item('b1')], md=B.timing_md(text_time='2.5'))], message_id=str(mid), ed_start='2021-03-04T09:00:00')

    def BODY():
        # every kind of paragraph a body can hold: empty, absent text, blank, bracketed, plain, non-ASCII blanks
        return [B.p(None), B.item('n1'), B.p('carried text'), B.p(''), B.item('n2'), B.p('   '), B.p('(a note)'), B.item('n3'),
                B.p('\u00a0\u3000'), E('p', E('b', text='bold'), text=None), B.p('Line one' + gen_hist.CR + 'line two'), B.p(' last '),
                # the same clip used twice, and two items without an ID: every one of them is an item of the body
                B.item('n2'), B.item(B.BLANK), B.p('between the blanks'), B.item(B.BLANK),
                # presenter tags (children of a roStorySend body like any other), each in front of an item
                E('storyPresenter', text='Anna'), B.item('n4'), E('storyPresenterRR', text='12'), E('storyPresenter', text='Ben'), B.item('n5')]

    def n_story():
        return B.story('N', BODY(), md=B.timing_md(duration='10'))

    carriers = {
        'StoryAppend': B.story_append([n_story()], message_id='10'),
        'StoryInsert': B.story_insert('S2', [n_story()], message_id='10'),
        'StoryInsert-end': B.story_insert(B.BLANK, [n_story()], message_id='10'),
        'StoryReplace': B.story_replace('S1', [n_story()], message_id='10'),
        'EAStoryReplace': B.ea('REPLACE', {'storyID': 'S1'}, [[n_story()]], message_id='10'),
        'EAStoryInsert': B.ea('INSERT', {'storyID': 'S2'}, [[n_story()]], message_id='10'),
        'StorySend': B.story_send('N', BODY(), message_id='10'),
        'StorySend-existing': B.story_send('S1', BODY(), message_id='10'),
        'RunningOrderReplace': B.ro_replace([n_story(), B.story('S2', [B.item('b1')])], message_id='10'),
        'ItemInsert': B.item_insert('S1', 'a2', [B.item('n1', extra=[E('itemEdDur', text='5')]), B.item('n2')], message_id='10'),
        'ItemReplace': B.item_replace('S1', 'a1', [B.item('n1'), B.item('n2')], message_id='10'),
        'EAItemInsert': B.ea('INSERT', {'storyID': 'S1', 'itemID': 'a2'}, [[B.item('n1'), B.item('n2')]], message_id='10'),
        'EAItemReplace': B.ea('REPLACE', {'storyID': 'S1', 'itemID': 'a1'}, [[B.item('n1'), B.item('n2')]], message_id='10'),
        'MetaDataReplace': B.metadata_replace([E('roSlug', text='new slug'), B.timing_md(duration='5')], message_id='10'),
    }
    story_of = lambda c: 'S1' if c.startswith(('ItemI', 'ItemR', 'EAItem')) else 'N'
    edits = {
        'ItemDelete': lambda s: B.item_delete(s, ['n1'], message_id='11'),
        'ItemInsert': lambda s: B.item_insert(s, 'n2', [B.item('x1')], message_id='11'),
        'ItemReplace': lambda s: B.item_replace(s, 'n2', [B.item('x2')], message_id='11'),
        'ItemMoveMultiple': lambda s: B.item_move_multiple(s, ['n2', 'n1'], message_id='11'),
        'EAItemSwap': lambda s: B.ea('SWAP', {'storyID': s}, [B.ids('itemID', ['n1', 'n2'])], message_id='11'),
        'EAItemDelete': lambda s: B.ea('DELETE', {'storyID': s}, [B.ids('itemID', ['n2'])], message_id='11'),
        'StorySend': lambda s: B.story_send(s, [B.item('y1')], message_id='11'),
        'StoryDelete': lambda s: B.story_delete([s], message_id='11'),
        'MetaDataReplace': lambda s: B.metadata_replace([E('roSlug', text='edited slug')], message_id='11'),
    }
    plans = []
    for cn, carrier in carriers.items():
        for en, edit in edits.items():
            for restore in (False, True):
                tgt = 'S1' if cn == 'StorySend-existing' else story_of(cn)
                plan = [(cn.split('-')[0], carrier), (en, edit(tgt))]
                if restore:
                    plan.append(('RunningOrderReplace', rr(12)))
                plan.append(('reuse', 0))
                # ... and the running order is edited again where the re-added content sits
                plan.append(('ItemMoveMultiple', B.item_move_multiple(tgt, ['n3', 'n1', 'n2'], message_id='13')))
                plan.append(('ItemInsert', B.item_insert(tgt, 'n2', [B.item('late')], message_id='14')))
                plans.append((f'{cn}/{en}/{"restored" if restore else "same"}', ro(), plan))
        # the same message again, unchanged: the same object at once, then a fresh copy under a new message ID, then an edit
        import copy

        def again(tree, mid):
            t = copy.deepcopy(tree)
            TJ.find(t, 'messageID')[2] = str(mid)
            return t
        tgt_ = 'S1' if cn == 'StorySend-existing' else story_of(cn)
        plans.append((f'{cn}/sent-again-unchanged', ro(),
                      [(cn.split('-')[0], carrier), ('reuse', 0), (cn.split('-')[0], again(carrier, 11)), (cn.split('-')[0], again(carrier, 12)),
                       ('ItemInsert', B.item_insert(tgt_, 'n2', [B.item('late')], message_id='14'))]))
        # the carried story is deleted as a whole, the same object is added again, then its items are moved
        if story_of(cn) == 'N' and cn != 'StorySend':
            plans.append((f'{cn}/deleted-and-re-added', ro(),
                          [(cn.split('-')[0], carrier), ('ItemDelete', B.item_delete('N', ['n1'], message_id='11')),
                           ('StoryDelete', B.story_delete(['N'], message_id='12')), ('reuse', 0),
                           ('ItemMoveMultiple', B.item_move_multiple('N', ['n3', 'n1', 'n2'], message_id='13')),
                           ('EAItemSwap', B.ea('SWAP', {'storyID': 'N'}, [B.ids('itemID', ['n1', 'n3'])], message_id='14'))]))
    return plans


def _fault_then_valid_plans():
    """A multi-element message that fails at its k-th element, then valid messages of the same class that
    touch what the failed one had already looked up (the natural retry) - "every sequence of failures"."""
    from . import build as B
    import itertools
    names = ['S1', 'S2', 'S3', 'S4']
    items = ['i1', 'i2', 'i3', 'i4']

    def ro():
        return B.ro_doc([B.story(n, [B.item(i) for i in items] if n == 'S1' else [B.item('j1')]) for n in names], message_id='1')

    bad = ['ZZ', B.BLANK]
    plans = []
    for a, b in itertools.permutations(names[:3], 2):
        for x in bad:
            fails = [('EAStoryMove', B.ea('MOVE', {'storyID': 'S4'}, [B.ids('storyID', [a, x])], message_id='10')),
                     ('EAStoryMove', B.ea('MOVE', {'storyID': 'S4'}, [B.ids('storyID', [a, b, x])], message_id='10')),
                     ('EAStoryMove', B.ea('MOVE', {'storyID': x}, [B.ids('storyID', [a, b])], message_id='10')),
                     ('EAStoryMove', B.ea('MOVE', {'storyID': 'S4'}, [B.ids('storyID', [a, a])], message_id='10')),
                     ('EAStorySwap', B.ea('SWAP', B.ABSENT, [B.ids('storyID', [a, x])], message_id='10')),
                     ('StoryMove', B.story_move([a, x], message_id='10'))]
            valids = [('EAStoryMove', B.ea('MOVE', {'storyID': a}, [B.ids('storyID', [b])], message_id='11')),
                      ('EAStoryMove', B.ea('MOVE', {'storyID': b}, [B.ids('storyID', ['S4', a])], message_id='11')),
                      ('EAStorySwap', B.ea('SWAP', B.ABSENT, [B.ids('storyID', [a, b])], message_id='11')),
                      ('StoryMove', B.story_move([b, a], message_id='11')),
                      ('EAStoryDelete', B.ea('DELETE', B.ABSENT, [B.ids('storyID', [a, 'S4'])], message_id='11'))]
            for fi, f in enumerate(fails):
                for vi, v in enumerate(valids):
                    plans.append((f'stories {a},{b},{x!r} fail#{fi} valid#{vi}', ro(), [f, v]))
    for a, b in itertools.permutations(items[:3], 2):
        for x in bad:
            fails = [('EAItemMove', B.ea('MOVE', {'storyID': 'S1', 'itemID': 'i4'}, [B.ids('itemID', [a, x])], message_id='10')),
                     ('EAItemMove', B.ea('MOVE', {'storyID': 'S1', 'itemID': x}, [B.ids('itemID', [a, b])], message_id='10')),
                     ('ItemMoveMultiple', B.item_move_multiple('S1', [a, x, 'i4'], message_id='10')),
                     ('ItemMoveMultiple', B.item_move_multiple('S1', [a, b, a], message_id='10')),
                     ('EAItemSwap', B.ea('SWAP', {'storyID': 'S1'}, [B.ids('itemID', [a, x])], message_id='10')),
                     ('ItemDelete', B.item_delete('ZZ', [a], message_id='10'))]
            valids = [('EAItemMove', B.ea('MOVE', {'storyID': 'S1', 'itemID': a}, [B.ids('itemID', [b])], message_id='11')),
                      ('ItemMoveMultiple', B.item_move_multiple('S1', ['i4', b, a], message_id='11')),
                      ('EAItemSwap', B.ea('SWAP', {'storyID': 'S1'}, [B.ids('itemID', [a, b])], message_id='11')),
                      ('EAItemDelete', B.ea('DELETE', {'storyID': 'S1'}, [B.ids('itemID', [a, 'i4'])], message_id='11'))]
            for fi, f in enumerate(fails):
                for vi, v in enumerate(valids):
                    plans.append((f'items {a},{b},{x!r} fail#{fi} valid#{vi}', ro(), [f, v]))
    return plans


def _big_plans():
    """Histories on running orders beyond every plausible size threshold (2100 stories, a 2100-item story): an edit that
    keeps the number of children, then messages that look the edited and other elements up again."""
    from . import build as B
    n = 2100
    ro = B.ro_doc([B.story(f'S{k}', [B.item(f'S{k}-a')]) for k in range(n)], message_id='1')
    X = lambda i: B.story(i, [B.item(i + '-new')])
    plans = [
        ('1-for-1 replace then move of the replaced story', ro,
         [('EAStoryReplace', B.ea('REPLACE', {'storyID': 'S5'}, [[X('S5')]], message_id='10')),
          ('EAStoryMove', B.ea('MOVE', {'storyID': 'S9'}, [B.ids('storyID', ['S7', 'S5'])], message_id='11')),
          ('EAStorySwap', B.ea('SWAP', B.ABSENT, [B.ids('storyID', ['S5', 'S2090'])], message_id='12')),
          ('StoryDelete', B.story_delete(['S2090', 'S5', 'S2099'], message_id='13')),
          ('EAStoryInsert', B.ea('INSERT', {'storyID': B.BLANK}, [[X('END1'), X('END2')]], message_id='14')),
          ('StoryInsert', B.story_insert(B.BLANK, [X('END3')], message_id='15')), ('StoryAppend', B.story_append([X('END4')], message_id='16')),
          ('EAStoryInsert', B.ea('INSERT', B.ABSENT, [[X('END5')]], message_id='17'))]),
        ('send, swap and move keep the count; then item edits in them', ro,
         [('StorySend', B.story_send('S2050', [B.p('sent'), B.item('n1'), B.item('n2')], message_id='10')),
          ('EAStorySwap', B.ea('SWAP', B.ABSENT, [B.ids('storyID', ['S2050', 'S3'])], message_id='11')),
          ('StoryMove', B.story_move(['S2050', 'S2050'], message_id='12')),
          ('ItemMoveMultiple', B.item_move_multiple('S2050', ['n2', 'n1'], message_id='13')),
          ('StoryMove', B.story_move(['S2099', 'S0'], message_id='14')),
          ('EAStoryMove', B.ea('MOVE', {'storyID': 'S1'}, [B.ids('storyID', ['S2098', 'S2050', 'S2097'])], message_id='15'))]),
        ('replace with the same ID twice, then delete', ro,
         [('StoryReplace', B.story_replace('S2000', [X('S2000')], message_id='10')), ('StoryReplace', B.story_replace('S2000', [X('S2000')], message_id='11')),
          ('EAStoryDelete', B.ea('DELETE', B.ABSENT, [B.ids('storyID', ['S1999', 'S2000', 'S2001'])], message_id='12'))]),
    ]
    wide = B.ro_doc([B.story('A', []), B.story('W', [B.item(f'w{k}') for k in range(n)]), B.story('C', [])], message_id='1')
    plans.append(('2100-item story: replace 1-for-1, then move and swap', wide,
                  [('ItemReplace', B.item_replace('W', 'w5', [B.item('w5')], message_id='10')),
                   ('EAItemMove', B.ea('MOVE', {'storyID': 'W', 'itemID': 'w9'}, [B.ids('itemID', ['w7', 'w5'])], message_id='11')),
                   ('EAItemSwap', B.ea('SWAP', {'storyID': 'W'}, [B.ids('itemID', ['w5', 'w2090'])], message_id='12')),
                   ('ItemMoveMultiple', B.item_move_multiple('W', ['w2090', 'w2090'], message_id='13')),
                   ('ItemDelete', B.item_delete('W', ['w2099', 'w5', 'w0'], message_id='14'))]))
    return plans


def _corner_plans():
    """Running orders whose timing metadata sits at a numeric corner (not-a-number, infinite, beyond float and
    datetime range): no merge reads it, so every class of message must still go in as into any other running order."""
    from . import build as B
    from .treejson import E
    corners = [('nan', '2021-06-01T22:30:00', 'nan'), ('inf', '2021-06-01T22:30:00', 'inf'), ('-inf', '2021-06-01T22:30:00', '-inf'),
               ('1e400', '2021-06-01T22:30:00', '1e400'), ('1e15', '2021-06-01T22:30:00', '1e15'),
               ('before-year-1', '0001-01-01T00:00:10', '-60'), ('end-of-9999', '9999-12-31T23:59:30', '45'),
               ('junk-start', '0000-00-00T99:99:99', '5'), ('huge-int', '2021-06-01T22:30:00', '9' * 400),
               ('clock-duration', '2021-06-01T22:30:00', '00:01:30'), ('empty-duration', '2021-06-01T22:30:00', ''),
               ('junk-both', 'tomorrow-ish', 'about a minute')]
    X = lambda i, t='10': B.story(i, [B.item(i + '-a')], md=B.timing_md(text_time=t, media_time='0'))
    plans = []
    for name, start, t in corners:
        for field in ('text_time', 'duration', 'media_time'):
            md = lambda v: B.timing_md(**{field: v})
            ro = B.ro_doc([B.story('S1', [B.item('a1', extra=[E('itemEdDur', text=t)]), B.item('a2')], md=md(t)),
                           B.story('S2', [B.item('b1')], md=md('30')), B.story('S3', [], md=md(t))], message_id='1', ed_start=start)
            plan = [('StoryInsert', B.story_insert('S2', [X('N1')], message_id='10')),
                    ('EAStoryInsert', B.ea('INSERT', {'storyID': 'S2'}, [[X('N2', t)]], message_id='11')),
                    ('StoryAppend', B.story_append([X('N3')], message_id='12')),
                    ('StoryMove', B.story_move(['S3', 'S1'], message_id='13')),
                    ('EAStorySwap', B.ea('SWAP', B.ABSENT, [B.ids('storyID', ['S1', 'N1'])], message_id='14')),
                    ('StoryReplace', B.story_replace('S2', [X('S2', t)], message_id='15')),
                    ('StorySend', B.story_send('S1', [B.p('sent'), B.item('n1')], message_id='16')),
                    ('ItemInsert', B.item_insert('S1', 'n1', [B.item('n0', extra=[E('itemEdDur', text=t)])], message_id='17')),
                    ('EAItemMove', B.ea('MOVE', {'storyID': 'S1', 'itemID': 'n0'}, [B.ids('itemID', ['n1'])], message_id='18')),
                    ('StoryInsert', B.story_insert('S1', [X('N1')], message_id='19')),            # a duplicate: warning, not an error
                    ('StoryDelete', B.story_delete(['N3', 'nowhere'], message_id='20')),
                    ('MetaDataReplace', B.metadata_replace([E('roSlug', text='new slug'), E('roEdStart', text=start)], message_id='21')),
                    ('RunningOrderEnd', B.ro_delete(message_id='22')),
                    ('StoryAppend', B.story_append([X('N4')], message_id='23'))]
            plans.append((f'{name}/{field}', ro, plan))
    return plans


def run_corner_histories():
    return _run_plans(_corner_plans(), 'timing-corner:', False)


def run_big_histories(views=False):
    return _run_plans(_big_plans(), 'big:', views)


def run_reuse_histories(views=False):
    return _run_plans(_reuse_plans(), 'reuse:', views)


def run_fault_then_valid_histories(views=False):
    return _run_plans(_fault_then_valid_plans(), 'fault-then-valid:', views)


def _run_plans(plans, prefix, views=False):
    from . import impl
    out = []
    for name, ro_tree, plan in plans:
        ro_text = TJ.to_text(ro_tree)
        ro = impl.load(ro_text)
        steps, docs, objects = [], [ro_text], []
        for k, (cls, msg) in enumerate(plan):
            state = TJ.to_tree(ro.xml)
            str(ro), ro.completed
            held = None
            if views:
                from . import access_family
                held = access_family.hold(ro)
                for hs in held:
                    try:
                        hs.body, hs.script, hs.items, hs.duration
                    except Exception:  # noqa: BLE001
                        pass
            if cls == 'reuse':
                obj = msg
                cls, msg_text, mo = objects[obj]
                if mo is None:
                    continue
                reused = True
            else:
                msg_text = TJ.to_text(msg).replace(gen_hist.CR, '&#13;')
                kc = impl.classify_text(msg_text)
                if 'err' in kc:
                    # reported through the classification comparison of the merge family
                    docs.append(msg_text)
                    steps.append({'ro_before': state, 'msg_text': msg_text, 'cls': cls, 'k': k, 'classify_err': kc['err'],
                                  'completed_before': bool(ro.completed), 'reused_object': False, 'via': 'add', 'obj': None})
                    objects.append((cls, msg_text, None))
                    continue
                mo = impl.load(msg_text)
                obj = len(objects)
                objects.append((cls, msg_text, mo))
                reused = False
            docs.append(msg_text)
            step = {'ro_before': state, 'msg_text': msg_text, 'cls': cls, 'k': k, 'completed_before': bool(ro.completed),
                    'reused_object': reused, 'via': 'add', 'obj': obj}
            via_ = 'merge' if (k % 3 == 1 and not ro.completed) else 'add'      # both entry points, along one history
            step['obs'] = impl.add(ro, mo, via=via_)
            step['via'] = via_
            step['kind'] = type(mo).__name__
            step['completed_after'] = bool(ro.completed)
            if views:
                from . import access_family
                step['view'] = access_family.read_view(ro)
                step['held_mismatch'] = access_family.held_mismatch(held or [], ro)
            steps.append(step)
        out.append({'seed': prefix + name, 'ro_text': ro_text, 'steps': steps, 'docs': docs, 'ids': []})
    return out
