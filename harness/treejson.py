"""Neutral reader/writer between ElementTree and the canonical JSON tree.

A tree is ``[tag, [[k, v], ...], text|None, tail|None, [children...]]``.
This module never goes through mosromgr: it is the oracle for "what the XML says".
"""
from xml.etree import ElementTree as ET


def to_tree(e):
    """ElementTree element -> JSON tree (attributes in document order)."""
    tag_ = e.tag if isinstance(e.tag, str) else '#' + getattr(e.tag, '__name__', repr(e.tag))   # Comment / PI nodes
    return [tag_, [[k, v] for k, v in e.attrib.items()], e.text, e.tail,
            [to_tree(c) for c in e]]


def to_elem(t):
    """JSON tree -> fresh ElementTree element."""
    e = ET.Element(t[0], {k: v for k, v in t[1]})
    e.text = t[2]
    e.tail = t[3]
    for c in t[4]:
        e.append(to_elem(c))
    return e


def to_text(t):
    """JSON tree -> XML text, through ElementTree's own serialiser."""
    return ET.tostring(to_elem(t), encoding='unicode')


def parse(text):
    """XML text -> JSON tree, through ElementTree's own parser."""
    return to_tree(ET.fromstring(text))


def canon(t):
    """The tree a reader gets after a write/read cycle of ``t`` (what both the implementation
    and the model are given)."""
    return parse(to_text(t))


# -- tiny query helpers over JSON trees (used by generators and oracles only) --------------------

def tag(t): return t[0]
def text(t): return t[2]
def kids(t): return t[4]


def find(t, name):
    for c in t[4]:
        if c[0] == name:
            return c
    return None


def findall(t, name):
    return [c for c in t[4] if c[0] == name]


def child_text(t, name):
    c = find(t, name) if t is not None else None
    return c[2] if c is not None else None


def E(tag_, *children, text=None, tail=None, attrs=None):
    """Build a JSON tree node."""
    return [tag_, [[k, v] for k, v in (attrs or {}).items()] if isinstance(attrs, dict)
            else list(attrs or []), text, tail, list(children)]
