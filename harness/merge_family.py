"""Correspondence runs for the properties about one merge step (`ro += msg`):
C01 C02 C03 C04 C05 C06 C07 C12.  One run = generate cases, run the real code, send the same
inputs and the real code's observation to the Lean driver, compare and evaluate the specs."""
import json
import multiprocessing as mp
import os
import random

from . import build as B, gen_pos, treejson as TJ
from .core import Outcome, stable_hash

STORY_LEVEL = {'StorySend', 'StoryAppend', 'StoryDelete', 'StoryInsert', 'StoryMove', 'StoryReplace',
               'EAStoryReplace', 'EAStoryDelete', 'EAStoryInsert', 'EAStorySwap', 'EAStoryMove'}
ITEM_LEVEL = {'ItemDelete', 'ItemInsert', 'ItemMoveMultiple', 'ItemReplace', 'EAItemReplace',
              'EAItemDelete', 'EAItemInsert', 'EAItemSwap', 'EAItemMove'}
CARRYING = {'StorySend', 'StoryAppend', 'StoryInsert', 'StoryReplace', 'EAStoryReplace', 'EAStoryInsert',
            'ItemInsert', 'ItemReplace', 'EAItemReplace', 'EAItemInsert', 'RunningOrderReplace',
            'MetaDataReplace'}


# ---- running the implementation (in worker processes) -------------------------------------------

def _impl_one(args):
    ro_text, msg_text = args
    from . import impl
    k = impl.classify_text(msg_text)
    if 'err' in k:
        return {'classify_err': k['err']}
    kr = impl.classify_text(ro_text)
    if kr != {'kind': 'RunningOrder'}:
        return {'ro_load': kr, 'kind': k['kind']}
    o = impl.add_texts(ro_text, msg_text)
    o['kind'] = k['kind']
    return o


def run_impl(pairs, jobs=None):
    jobs = 1 if os.environ.get('VERIF_COVERAGE') else (jobs or min(16, os.cpu_count() or 1))
    if len(pairs) < 400 or jobs == 1:
        return [_impl_one(p) for p in pairs]
    ctx = mp.get_context('fork')
    with ctx.Pool(jobs) as pool:
        return pool.map(_impl_one, pairs, chunksize=max(1, len(pairs) // (jobs * 8)))


# ---- neutral readers used by the projections ----------------------------------------------------

def rc_of(t):
    return TJ.find(t, 'roCreate')


def story_ids(t):
    rc = rc_of(t)
    if rc is None:
        return None
    return [TJ.child_text(s, 'storyID') for s in TJ.findall(rc, 'story')]


def item_ids_all(t):
    rc = rc_of(t)
    if rc is None:
        return None
    return [[TJ.child_text(i, 'itemID') for i in TJ.findall(s, 'item')] for s in TJ.findall(rc, 'story')]


def completed(t):
    return TJ.find(t, 'mosromgrmeta') is not None


def envelope_of(t):
    """the root with the running-order element abstracted: what completion is about"""
    return [t[0], t[1], t[2], t[3], [('roCreate' if c[0] == 'roCreate' else c) for c in t[4]]]


def crash_kind(err):
    return 'crash' if (err or '').startswith('crash:') else ('lib' if err else None)


PROJ = {
    'C01': lambda o, before: (o['err'], story_ids(o['ro'])),
    'C02': lambda o, before: (o['err'], item_ids_all(o['ro'])),
    'C03': lambda o, before: (o['err'], o['ro']),
    'C04': lambda o, before: (o['err'], o['ro']),
    'C05': lambda o, before: (bool(o['err']), o['ro'] == before),
    'C06': lambda o, before: (o['err'], o['warns'], story_ids(o['ro']), item_ids_all(o['ro'])),
    'C07': lambda o, before: (o['err'] == 'MosCompletedMergeError', completed(o['ro']), envelope_of(o['ro'])),
    'C12': lambda o, before: crash_kind(o['err']),
}

RELEVANT = {
    'C01': lambda cls: cls in STORY_LEVEL,
    'C02': lambda cls: cls in ITEM_LEVEL,
    'C03': lambda cls: True,
    'C04': lambda cls: cls in CARRYING,
    'C05': lambda cls: True,
    'C06': lambda cls: True,
    'C07': lambda cls: True,
    'C12': lambda cls: True,
}

def sig_unreadable_message_id(fl):
    """Signature of the open C05 finding: the failing message has no / a blank / a non-numeric messageID."""
    return bool(fl.get('unreadable_message_id'))


SIGNATURES = {'C05': {'unreadable-message-id': sig_unreadable_message_id}}

# extra spec keys evaluated together with the main one
EXTRA_KEYS = {'C01': ['C01perm'], 'C02': ['C02perm'], 'C05': ['C05any']}


def nontrivial(pid, case, o, before):
    """Is this input non-trivial for the property? (stated per property in the evidence 'rule')"""
    if pid in ('C01', 'C02', 'C03', 'C04'):
        return o['ro'] != before or bool(o['err']) or bool(o['warns'])
    if pid == 'C05':
        return o['err'] in ('MosMergeError', 'MosCompletedMergeError')
    if pid == 'C06':
        return bool(o['warns']) or o['err'] == 'MosMergeError'
    if pid == 'C07':
        return case['cls'] == 'RunningOrderEnd' or completed(before)
    if pid == 'C12':
        return True
    return True


RULES = {
    'C01': 'story-level merges; non-trivial = the merge changed the tree, raised or warned; distinct by hash of (running order, message)',
    'C02': 'item-level merges; non-trivial = the merge changed the tree, raised or warned; distinct by hash of (running order, message)',
    'C03': 'all merge classes x reference shapes {existing, unknown, blank, absent}; non-trivial = tree changed, raised or warned',
    'C04': 'payload-carrying classes; non-trivial = tree changed, raised or warned',
    'C05': 'all merge classes; non-trivial = the implementation raised MosMergeError/MosCompletedMergeError',
    'C06': 'all merge classes; non-trivial = a mosromgr warning was emitted or MosMergeError raised',
    'C07': 'all merge classes; non-trivial = the message is a roDelete or the running order is already completed',
    'C12': 'all merge classes on well-formed running orders and schema-shaped messages; every distinct input counts',
}


def evaluate(pid, cases, oc=None, compare_outside_domain=False):
    """Run implementation and model on `cases`; fill an Outcome for property `pid`."""
    from . import lean
    oc = oc or Outcome(pid)
    cases = [c for c in cases if RELEVANT[pid](c['cls'])]
    texts = [(c.get('ro_text') or TJ.to_text(c['ro']), c.get('msg_text') or TJ.to_text(c['msg'])) for c in cases]
    # cases from live histories carry the implementation's observation already
    todo = [i for i, c in enumerate(cases) if 'impl' not in c]
    fresh = run_impl([texts[i] for i in todo])
    impl_obs = [c.get('impl') for c in cases]
    for i, o in zip(todo, fresh):
        impl_obs[i] = o
    reqs = []
    trees = []
    for c, (ro_text, msg_text), o in zip(cases, texts, impl_obs):
        if 'impl' in c:
            ro_t, msg_t = c['ro'], TJ.parse(msg_text)      # the live state itself
        else:
            ro_t, msg_t = TJ.parse(ro_text), TJ.parse(msg_text)
        trees.append((ro_t, msg_t))
        r = {'op': 'add', 'ro': ro_t, 'msg': msg_t}
        if 'classify_err' not in o and 'ro_load' not in o:
            r['impl'] = {'err': o['err'], 'warns': o['warns'], 'ro': o['ro']}
        reqs.append(r)
    resps = lean.run_batch(reqs)
    proj = PROJ[pid]
    keys = [pid] + EXTRA_KEYS.get(pid, [])
    for c, (ro_text, msg_text), (ro_t, msg_t), o, r in zip(cases, texts, trees, impl_obs, resps):
        oc.evaluations += 1
        oc.count('class:' + c['cls'])
        rec = {'kind': 'add', 'label': c['label'], 'cls': c['cls'], 'ro_text': ro_text, 'msg_text': msg_text}
        if 'live_history' in c:
            rec['live_history'] = c['live_history']
        if 'ro_load' in o:
            # the library cannot read the running-order document itself (it has a roCreate)
            what = 'the running-order document is not read as a RunningOrder: %r' % (o['ro_load'],)
            if pid == 'C07' and completed(ro_t):
                oc.failing.append(dict(rec, spec='a completed running order written out and read back must be a RunningOrder '
                                       'that is still completed; ' + what))
            else:
                oc.disagreements.append(dict(rec, what=what, impl=o['ro_load'], model={'kind': 'RunningOrder'}))
            continue
        if 'classify_err' in o or 'classify_err' in r:
            # classification outcome is C08's; here only note a disagreement on it
            ie, me = o.get('classify_err'), r.get('classify_err')
            oc.count('classify-error')
            if pid == 'C12' and (ie or '').startswith('crash:'):
                oc.failing.append(dict(rec, spec='classifying a well-formed document escaped as a built-in exception: ' + ie))
            if ie != me:
                oc.disagreements.append(dict(rec, what='classification', impl=ie, model=me))
            continue
        class_differs = o['kind'] != r['kind']
        if class_differs:
            # the library built an object of another class than the message element determines (C08): what it then
            # did to the running order is still judged against the spec of the class the document has
            oc.disagreements.append(dict(rec, what='class', impl=o['kind'], model=r['kind']))
        model = r['model']
        props = r['props']
        dom = props[pid]['dom']
        oc.count('outcome:' + (o['err'] or ('warned' if o['warns'] else 'ok')))
        if dom:
            oc.in_domain += 1
            oc.count('in-domain:' + c['cls'])
        impl_o = {'err': o['err'], 'warns': o['warns'], 'ro': o['ro']}
        if (dom or compare_outside_domain) and not class_differs:
            pi, pm = proj(impl_o, ro_t), proj(model, ro_t)
            if pi != pm:
                oc.disagreements.append(dict(rec, what=f'projection of {pid}',
                                             impl={'err': o['err'], 'warns': o['warns'], 'ro_text': TJ.to_text(o['ro'])},
                                             model={'err': model['err'], 'warns': model['warns'], 'ro_text': TJ.to_text(model['ro'])}))
        else:
            if proj(impl_o, ro_t) != proj(model, ro_t):
                oc.count('info:model-differs-outside-domain')
        for key in keys:
            v = props[key]
            if v['dom'] and not v['holds']:
                if key == 'C05any':
                    # outside the theorem's hypothesis (C05_total: readable messageID)? then it is the recorded finding
                    rec = dict(rec, unreadable_message_id=not props['C05total']['dom'])
                oc.failing.append(dict(rec, spec=key,
                                       impl={'err': o['err'], 'warns': o['warns'], 'ro_text': TJ.to_text(o['ro'])},
                                       model={'err': model['err'], 'warns': model['warns'], 'ro_text': TJ.to_text(model['ro'])}))
        if pid == 'C07':
            for spec in c07_extra(o):
                oc.failing.append(dict(rec, spec=spec, impl={'err': o['err'], 'warns': o['warns'], 'ro_text': TJ.to_text(o['ro'])}))
        if (dom or pid in ('C05', 'C07')) and nontrivial(pid, c, impl_o, ro_t):
            h = stable_hash([ro_text, msg_text])
            if h not in oc.nontrivial:
                oc.nontrivial.add(h)
                if len(oc.samples) < 6 and (len(oc.nontrivial) % 97 == 1 or len(oc.samples) < 2):
                    oc.samples.append({'label': c['label'], 'ro': ro_text, 'msg': msg_text,
                                       'outcome': {'err': o['err'], 'warns': o['warns']}})
    if pid in ('C02', 'C05', 'C06', 'C12'):
        sample = [(c, t, o) for c, t, o in zip(cases, texts, impl_obs) if 'err' in o and 'impl' not in c and (o['err'] or o['warns'])]
        rest = [(c, t, o) for c, t, o in zip(cases, texts, impl_obs) if 'err' in o and 'impl' not in c and not (o['err'] or o['warns'])]
        flags_route(oc, pid, sample[::max(1, len(sample) // 500)] + rest[::max(1, len(rest) // 200)])
    if pid in ('C01', 'C02', 'C03', 'C04'):
        file_route(oc, pid)
    if pid == 'C06':
        collection_route(oc, [(c, t, o) for c, t, o in zip(cases, texts, impl_obs)
                              if 'err' in o and not o['err'] and len(o.get('warns') or []) >= 2 and 'live_history' not in c])
    if pid in ('C01', 'C02', 'C03', 'C04'):
        collection_payload_route(oc, pid, [(c, t, o) for c, t, o in zip(cases, texts, impl_obs)
                                           if 'err' in o and not o['err'] and 'live_history' not in c and (pid != 'C04' or c['cls'] in CARRYING)],
                                 limit=300 if pid == 'C04' else 120)
    if pid == 'C12':
        nonstrict_route(oc, [(c, t, o) for c, t, o in zip(cases, texts, impl_obs)
                             if 'err' in o and (o['err'] in ('MosMergeError', 'MosCompletedMergeError') or (not o['err'] and o['warns'])) and 'live_history' not in c])
    oc.rule = RULES[pid]
    return oc


def history_level(oc, pid, cases):
    """"From every state reached by earlier merges": the model is run along each live history from the initial
    running order (value semantics: what the documents say).  Where the library's live state has drifted from it
    - which it never does on a correct tree -, the step is judged against the state the history SHOULD have
    reached: spec(model's state before, message) versus what the library's object holds afterwards."""
    from . import lean
    by = {}
    for c in cases:
        if 'hist_id' in c and 'impl' in c and 'err' in c['impl']:
            by.setdefault(c['hist_id'], []).append(c)
    for lst in by.values():
        lst.sort(key=lambda c: c['k'])
    state = {hid: lst[0]['ro'] for hid, lst in by.items()}
    keys = [pid] + EXTRA_KEYS.get(pid, [])
    depth = 0
    while True:
        todo = [(hid, lst[depth]) for hid, lst in by.items() if depth < len(lst)]
        if not todo:
            break
        reqs = [{'op': 'add', 'ro': state[hid], 'msg': TJ.parse(c['msg_text']),
                 'impl': {'err': c['impl']['err'], 'warns': c['impl']['warns'], 'ro': c['impl']['ro']}} for hid, c in todo]
        for (hid, c), r in zip(todo, lean.run_batch(reqs)):
            drifted = state[hid] != c['ro']
            if 'model' in r:
                nxt = r['model']['ro']
            else:
                nxt = state[hid]
            merr = r.get('model', {}).get('err')
            if merr and not merr.startswith('Mos') and merr != c['impl']['err']:
                # the model ends this step in a built-in exception the library did not raise: the input is outside
                # what the model can say (a documented modelling limit, counted); nothing is judged from a state
                # the model cannot reach - the run continues from the library's own state
                oc.count('history-level-outside-model')
                state[hid] = c['impl']['ro']
                continue
            if drifted and 'props' in r and RELEVANT[pid](c['cls']):
                oc.count('history-level-judgements')
                for key in keys:
                    v = r['props'][key]
                    if v['dom'] and not v['holds']:
                        oc.failing.append({'kind': 'add', 'label': c['label'] + ':history-level', 'cls': c['cls'],
                                           'ro_text': TJ.to_text(state[hid]), 'msg_text': c['msg_text'],
                                           'live_history': c['history_script'], 'history_level': True,
                                           'spec': key + ' (judged from the state the history should have reached: the live running order had '
                                                   'drifted from what its documents say before this step)',
                                           'impl': {'err': c['impl']['err'], 'warns': c['impl']['warns'], 'ro_text': TJ.to_text(c['impl']['ro'])},
                                           'model': {'err': r['model']['err'], 'warns': r['model']['warns'], 'ro_text': TJ.to_text(r['model']['ro'])}})
            state[hid] = nxt
        depth += 1


def flags_route(oc, pid, triples):
    """Interpreter configuration is not an input: the same (running order, message) pairs in a fresh `python -O`
    interpreter, and in a fresh `python -W always` interpreter whose warning filters are left as the interpreter and
    the library's import set them, must give what this process observed (error, warnings, resulting document)."""
    import os, shutil, subprocess, sys, tempfile
    from .lean import InfraError, VERIF
    if not triples:
        return
    pairs = [[rt, mt] for _, (rt, mt), _ in triples]
    tmp = tempfile.mkdtemp(prefix='mrm-flags-')
    try:
        inp = os.path.join(tmp, 'in.json')
        with open(inp, 'w') as f:
            json.dump(pairs, f)
        env = dict(os.environ, PYTHONPATH=VERIF, PYTHONDONTWRITEBYTECODE='1')
        for name, flags, extra in (('python -O', ['-O'], []), ('python -W always (ambient filters)', ['-W', 'always'], ['ambient'])):
            outp = os.path.join(tmp, 'out.json')
            p = subprocess.run([sys.executable] + flags + ['-m', 'harness.sub_merge', inp, outp] + extra, cwd=VERIF, env=env,
                               stdout=subprocess.PIPE, stderr=subprocess.STDOUT, text=True, timeout=1200)
            if p.returncode != 0:
                oc.disagreements.append({'kind': 'flags', 'what': f'the library could not be used under {name}', 'impl': p.stdout[-1200:]})
                continue
            with open(outp) as f:
                res = json.load(f)['results']
            for (c, (rt, mt), o), r in zip(triples, res):
                oc.evaluations += 1
                oc.count('flags:' + name.split(' ')[1])
                here = {'err': o['err'], 'warns': o['warns'], 'text': TJ.to_text(o['ro'])}
                if r != here and not ('\r' in (r['text'] or '') or '\r' in here['text']):
                    oc.failing.append({'kind': 'add', 'label': c['label'] + f':under {name}', 'cls': c['cls'], 'ro_text': rt, 'msg_text': mt,
                                       'flags_route': name, 'spec': f'the outcome under {name} differs from the outcome in the default configuration',
                                       'impl': {'default': {k: (v[:800] if isinstance(v, str) else v) for k, v in here.items()},
                                                name: {k: (v[:800] if isinstance(v, str) else v) for k, v in r.items()}}})
    finally:
        shutil.rmtree(tmp, ignore_errors=True)


def file_route(oc, pid='C04'):
    """C04 for messages that arrive as FILES in another encoding (declared in the XML declaration): what the
    message carries must reach the running order exactly as the document says (neutral reading of the same bytes)."""
    import os, tempfile, warnings, pathlib
    from . import impl, lean, build as B
    from .treejson import E
    from mosromgr.mostypes import MosFile
    txt = 'Caf\u00e9 Zo\u00eb \u00a320 \u00bd'
    item = lambda i: B.item(i, extra=[E('note', text=txt, attrs={'lang': 'fran\u00e7ais'})])
    story = lambda i: B.story(i, [B.p(txt), item(i + '-1')])
    # (IDs with non-ASCII letters that a wrong decoding would merge into one: caf\u00e9 / caf\u00e8)
    e1, e2 = 'caf\u00e9', 'caf\u00e8'
    ro = B.ro_doc([B.story('A', [B.item('I1'), B.item('I2'), B.item(e1), B.item(e2)]), B.story(e1, [B.item('x')]), B.story('B', []), B.story(e2, [B.item('y')])])
    msgs = {'StoryDelete': B.story_delete([e2]), 'StoryMove': B.story_move([e2, e1]), 'EAStorySwap': B.ea('SWAP', B.ABSENT, [B.ids('storyID', [e2, 'A'])]),
            'ItemDelete': B.item_delete('A', [e2]), 'ItemMoveMultiple': B.item_move_multiple('A', [e2, 'I1']), 'EAItemDelete': B.ea('DELETE', {'storyID': e2}, [B.ids('itemID', ['y'])]),
            'StorySend-accent': B.story_send(e2, [B.p(txt)]),'StoryAppend': B.story_append([story('X')]), 'StoryInsert': B.story_insert('B', [story('X')]), 'StoryReplace': B.story_replace('A', [story('X')]),
            'StorySend': B.story_send('A', [B.p(txt), item('S1')]), 'ItemInsert': B.item_insert('A', 'I2', [item('N')]),
            'ItemReplace': B.item_replace('A', 'I1', [item('N')]), 'EAStoryInsert': B.ea('INSERT', {'storyID': 'B'}, [[story('X')]]),
            'EAItemReplace': B.ea('REPLACE', {'storyID': 'A', 'itemID': 'I1'}, [[item('N')]]),
            'RunningOrderReplace': B.ro_replace([story('X')], slug=txt), 'MetaDataReplace': B.metadata_replace([E('roSlug', text=txt)])}
    encs = [('iso-8859-1', 'ISO-8859-1'), ('cp1252', 'windows-1252'), ('utf-16', 'UTF-16'), ('utf-8', 'UTF-8')]
    jobs = []
    tmp = tempfile.mkdtemp(prefix='mrm-c04-')
    try:
        for cls, msg in msgs.items():
            cls = cls.split('-')[0]
            for enc, decl in encs:
                data = ('<?xml version="1.0" encoding="%s"?>' % decl + TJ.to_text(msg)).encode(enc)
                path = os.path.join(tmp, f'{cls}-{enc}.mos.xml')
                with open(path, 'wb') as f:
                    f.write(data)
                neutral = TJ.to_tree(__import__('xml.etree.ElementTree', fromlist=['x']).fromstring(data))
                try:
                    # the running order comes from a file in the same encoding
                    rpath = os.path.join(tmp, f'ro-{enc}.mos.xml')
                    with open(rpath, 'wb') as f:
                        f.write(('<?xml version="1.0" encoding="%s"?>' % decl + TJ.to_text(ro)).encode(enc))
                    r = MosFile.from_file(rpath)
                except Exception:  # noqa: BLE001
                    r = impl.load(TJ.to_text(ro))
                try:
                    with warnings.catch_warnings():
                        warnings.simplefilter('ignore')
                        mo = MosFile.from_file(pathlib.Path(path) if enc == 'cp1252' else path)
                    o = impl.add(r, mo)
                except Exception as e:  # noqa: BLE001
                    o = {'err': 'load:' + impl.err_name(e), 'warns': [], 'ro': TJ.to_tree(r.xml)}
                jobs.append((cls, enc, data, neutral, o))
    finally:
        import shutil
        shutil.rmtree(tmp, ignore_errors=True)
    ro_t = TJ.canon(ro)
    resps = lean.run_batch([{'op': 'add', 'ro': ro_t, 'msg': n, 'impl': {'err': None if str(o['err']).startswith('load:') else o['err'],
                                                                        'warns': o['warns'], 'ro': o['ro']}} for _, _, _, n, o in jobs])
    for (cls, enc, data, neutral, o), r in zip(jobs, resps):
        oc.evaluations += 1
        oc.in_domain += 1
        oc.count('file-route:' + enc)
        pr = r.get('props', {}).get(pid, {})
        bad = str(o['err']).startswith('load:') or (pr.get('dom', False) and not pr.get('holds', False)) or o['ro'] != r['model']['ro']
        if bad:
            oc.failing.append({'kind': 'add', 'label': f'{cls} from a file in {enc}', 'cls': cls, 'ro_text': TJ.to_text(ro), 'msg_text': TJ.to_text(neutral),
                               'file_route': {'encoding': enc, 'data_hex': data.hex()},
                               'spec': 'a message read from a file in the encoding its declaration names carries its content into the running order exactly',
                               'impl': {'err': o['err'], 'ro_text': TJ.to_text(o['ro'])[:1500]}, 'model': {'ro_text': TJ.to_text(r['model']['ro'])[:1500]}})


def collection_route(oc, triples, limit=400):
    """C06 through the other documented route: the same running order and message as a two-document
    collection merged non-strictly and strictly must report exactly the warnings `ro += msg` reports."""
    import re, warnings
    from . import impl
    from mosromgr.moscollection import MosCollection
    step = max(1, len(triples) // limit)
    for c, (ro_text, msg_text0), o in triples[::step]:
        # a carriage return reaches a parser only as a character reference (a raw one is normalised to a line feed)
        ro_text, msg_text0 = ro_text.replace('\r', '&#13;'), msg_text0.replace('\r', '&#13;')
        for strict in (False, True, 'tied'):
            msg_text = msg_text0
            if strict == 'tied':
                # the message carries the same message ID as the roCreate: it is still a message of the collection
                m = re.search(r'<messageID>([^<]*)</messageID>', ro_text)
                if not m:
                    break
                msg_text = re.sub(r'<messageID>[^<]*</messageID>', '<messageID>%s</messageID>' % m.group(1), msg_text0, count=1)
                strict = False
            try:
                with warnings.catch_warnings():
                    warnings.simplefilter('ignore')
                    mc = MosCollection.from_strings([ro_text, msg_text], allow_incomplete=True)
            except Exception:  # noqa: BLE001 - not a collection (other roID, odd message IDs): nothing to compare
                break
            with warnings.catch_warnings(record=True) as w:
                warnings.simplefilter('always')
                try:
                    mc.merge(strict=strict)
                    err = None
                except Exception as e:  # noqa: BLE001
                    err = impl.err_name(e)
            ws = [x for x in impl.lib_warnings(w) if x != 'MosMergeNonStrictWarning']
            oc.evaluations += 1
            oc.count('collection-route')
            if err is not None or ws != o['warns'] or TJ.to_tree(mc.ro.xml) != o['ro']:
                oc.failing.append({'kind': 'add', 'label': c['label'] + f':via-collection(strict={strict})', 'cls': c['cls'],
                                   'ro_text': ro_text, 'msg_text': msg_text, 'route': {'strict': strict},
                                   'spec': 'merged through a collection the message must report the same warnings (one per unresolvable/duplicate '
                                           'element) and give the same running order as `ro += msg`',
                                   'impl': {'err': err, 'warns': ws, 'direct_warns': o['warns']}})


def nonstrict_route(oc, triples, limit=500):
    """C12, last clause: "a non-strict collection merge always runs to the end" - every message that fails or warns when
    added directly, as the second of three documents (running order, message, roDelete) merged non-strictly: no
    exception of any kind leaves merge(), and the roDelete behind the failing message is reached."""
    import re, warnings
    from . import impl
    from mosromgr.moscollection import MosCollection
    step = max(1, len(triples) // limit)
    for c, (ro_text, msg_text), o in triples[::step]:
        ro_text, msg_text = ro_text.replace('\r', '&#13;'), msg_text.replace('\r', '&#13;')
        m = re.search(r'<roID>([^<]*)</roID>', ro_text)
        if not m or '<mosromgrmeta>' in ro_text:
            continue
        rd = '<mos><mosID>m</mosID><ncsID>n</ncsID><messageID>999999999</messageID><roDelete><roID>%s</roID></roDelete></mos>' % m.group(1)
        try:
            with warnings.catch_warnings():
                warnings.simplefilter('ignore')
                mc = MosCollection.from_strings([ro_text, msg_text, rd], allow_incomplete=True)
        except Exception:  # noqa: BLE001 - not a collection (other roID, unreadable message IDs): C11's business
            continue
        err = None
        with warnings.catch_warnings():
            warnings.simplefilter('ignore')
            try:
                mc.merge(strict=False)
            except Exception as e:  # noqa: BLE001
                err = impl.err_name(e)
        oc.evaluations += 1
        oc.count('nonstrict-collection-route')
        if err is not None or not mc.completed:
            oc.failing.append({'kind': 'add', 'label': c['label'] + ':via non-strict collection', 'cls': c['cls'], 'ro_text': ro_text, 'msg_text': msg_text,
                               'nonstrict_route': True,
                               'spec': 'a non-strict collection merge runs to the end: no exception leaves merge() and the roDelete after the failing message is applied',
                               'impl': {'err': err, 'completed': bool(mc.completed), 'direct': {'err': o['err'], 'warns': o['warns']}}})


def collection_payload_route(oc, pid, triples, limit=300):
    """C04 through the collection: what a message carries reaches the running order exactly as the document says also when
    the message is one of a collection's documents (strings and files) - the readers restore it from what they kept.
    Scripted documents with CDATA, character references and non-ASCII text, plus a sample of the enumerated cases."""
    import warnings
    from . import impl, coll_family
    from mosromgr.moscollection import MosCollection
    ro0 = ('<mos><mosID>m</mosID><ncsID>n</ncsID><messageID>1</messageID><roCreate><roID>RO1</roID><roSlug>s</roSlug>'
           '<story><storyID>A</storyID><item><itemID>a1</itemID></item></story><story><storyID>B</storyID></story></roCreate></mos>')
    rich = '<p><![CDATA[caf\u00e9 & <b> \u20ac]]></p><p>na&#239;ve &amp; &#x20AC; \u00fc</p><item><itemID>n1</itemID><itemSlug><![CDATA[\u00dcber]]></itemSlug></item>'
    scripted = [('roStoryAppend with CDATA', '<mos><mosID>m</mosID><ncsID>n</ncsID><messageID>2</messageID><roStoryAppend><roID>RO1</roID><story><storyID>N</storyID>%s</story></roStoryAppend></mos>' % rich),
                ('roStorySend with CDATA', '<mos><mosID>m</mosID><ncsID>n</ncsID><messageID>2</messageID><roStorySend><roID>RO1</roID><storyID>A</storyID><storyBody>%s</storyBody></roStorySend></mos>' % rich.replace('item>', 'storyItem>')),
                ('roReplace with CDATA', '<mos><mosID>m</mosID><ncsID>n</ncsID><messageID>2</messageID><roReplace><roID>RO1</roID><roSlug><![CDATA[Sp\u00e4t]]></roSlug><story><storyID>R</storyID>%s</story></roReplace></mos>' % rich),
                ('roItemInsert with CDATA', '<mos><mosID>m</mosID><ncsID>n</ncsID><messageID>2</messageID><roItemInsert><roID>RO1</roID><storyID>A</storyID><itemID>a1</itemID><item><itemID>n1</itemID><note><![CDATA[\u00e9\u00e8]]></note></item></roItemInsert></mos>'),
                ('declared ISO-8859-1 given as str', '<?xml version="1.0" encoding="ISO-8859-1"?><mos><mosID>m</mosID><ncsID>n</ncsID><messageID>2</messageID><roStoryAppend><roID>RO1</roID><story><storyID>N</storyID><p>Caf\u00e9 owners \u00a320</p></story></roStoryAppend></mos>')]
    scripted.append(('roStorySend with mixed content', '<mos><mosID>m</mosID><ncsID>n</ncsID><messageID>2</messageID><roStorySend><roID>RO1</roID><storyID>A</storyID><storyBody>'
                     '<p>Live from <b>Paris</b> <i>tonight</i> and  <b>two</b>\n<i>lines</i></p><storyItem><itemID>n1</itemID><note>a <em>b</em> c</note></storyItem></storyBody></roStorySend></mos>'))
    jobs = [(lbl, ro0, [m]) for lbl, m in scripted]
    cli_budget = [len(jobs) + 8]        # the scripted documents and a few of the enumerated cases also through the CLI
    # look-alike IDs that differ in one non-ASCII letter, in documents that declare ISO-8859-1 (files and S3 objects hold
    # the bytes in that encoding): whichever way the documents come in, each message finds the story / item it names
    d1 = '<?xml version="1.0" encoding="ISO-8859-1"?>'
    ro_acc = d1 + TJ.to_text(B.ro_doc([B.story('\u00d61', [B.item('\u00e91'), B.item('\u00e81')]), B.story('\u00dc1', [B.item('\u00e91')]), B.story('O1', [])], message_id='1'))
    jobs += [('look-alike non-ASCII IDs: story delete', ro_acc, [d1 + TJ.to_text(B.story_delete(['\u00dc1'], message_id='2'))]),
             ('look-alike non-ASCII IDs: item delete', ro_acc, [d1 + TJ.to_text(B.item_delete('\u00d61', ['\u00e81'], message_id='2'))]),
             ('look-alike non-ASCII IDs: story move', ro_acc, [d1 + TJ.to_text(B.story_move(['O1', '\u00d61'], message_id='2'))]),
             ('look-alike non-ASCII IDs: item move', ro_acc, [d1 + TJ.to_text(B.item_move_multiple('\u00d61', ['\u00e81', '\u00e91'], message_id='2'))])]
    # a roReplace in mid-history followed by messages that act on what it brought
    X = lambda i: B.story(i, [B.item(i + '-1')])
    ro4 = TJ.to_text(B.ro_doc([X('A'), X('B'), X('C'), X('D')], message_id='1'))
    jobs += [('roReplace, then a move of replaced stories', ro4, [TJ.to_text(B.ro_replace([X('D'), X('C'), X('B'), X('A')], message_id='2')), TJ.to_text(B.story_move(['A', 'D'], message_id='3'))]),
             ('roReplace, then an item insert', ro4, [TJ.to_text(B.ro_replace([X('Q'), X('A')], message_id='2')), TJ.to_text(B.item_insert('Q', 'Q-1', [B.item('n')], message_id='3'))])]
    step = max(1, len(triples) // limit)
    jobs += [(c['label'], rt, [mt]) for c, (rt, mt), o in triples[::step]]
    for lbl, ro_text, msgs in jobs:
        ro_text, msgs = ro_text.replace('\r', '&#13;'), [m.replace('\r', '&#13;') for m in msgs]
        msg_text = msgs[-1]
        try:
            with warnings.catch_warnings():
                warnings.simplefilter('ignore')
                ro = impl.load(ro_text)
                for m in msgs:
                    ro += impl.load(m)
            direct = TJ.to_tree(ro.xml)
        except Exception:  # noqa: BLE001 - not a successful merge: nothing arrives
            continue
        if cli_budget[0] > 0:
            # ... and merged by the command line (to stdout, and to -o over an existing file): what it writes reads back the same
            cli_budget[0] -= 1
            from . import io_family
            for to_file in (False, True):
                r = io_family.cli_merge_tree([ro_text] + msgs, to_file, extra=['-i'])
                oc.evaluations += 1
                oc.count('collection-payload-route:cli')
                if 'tree' in r and r['tree'] != direct or 'unreadable' in r:
                    oc.failing.append({'kind': 'add', 'label': lbl + f':via mosromgr merge {"-o" if to_file else "(stdout)"}', 'cls': '?', 'ro_text': ro_text, 'msg_text': msg_text,
                                       'payload_route': 'cli',
                                       'spec': 'merged by the command line and read back, the messages leave the running order they leave when added directly',
                                       'impl': {'cli': TJ.to_text(r['tree'])[:1500] if 'tree' in r else r, 'direct': TJ.to_text(direct)[:1500]}})
        for via in ('strings', 'files', 's3'):
            o = coll_family.impl_collection([ro_text] + msgs, True, False, via=via)
            if o['err'] is not None or not o['run']:
                continue                      # not a collection (odd message IDs, another roID): C11's business
            oc.evaluations += 1
            oc.count('collection-payload-route:' + via)
            if o['run']['err'] is not None or o['run']['ro'] != direct:
                oc.failing.append({'kind': 'add', 'label': lbl + f':via collection from {via}', 'cls': '?', 'ro_text': ro_text, 'msg_text': msg_text,
                                   'payload_route': via,
                                   'spec': 'merged as documents of a collection (strings, files, S3 objects) the messages leave the running order they leave when added directly',
                                   'impl': {'err': o['run']['err'], 'collection': TJ.to_text(o['run']['ro'])[:1500], 'direct': TJ.to_text(direct)[:1500]}})


def c07_extra(o):
    """C07 observations beyond the merge step itself: the `completed` accessor, the written-out and
    re-read document, and the refusal under -W error."""
    out = []
    if 'completed_attr' in o and o['completed_attr'] != completed(o['ro']):
        out.append('C07 accessor: ro.completed=%r but the document %s a completion record'
                   % (o['completed_attr'], 'has' if completed(o['ro']) else 'has no'))
    rr = dict(o['reread']) if o.get('reread') is not None else None
    refuses = rr.pop('refuses', None) if rr is not None else None
    if completed(o['ro']) and rr is not None and rr != {'cls': 'RunningOrder', 'completed': True}:
        out.append('a completed running order written out and read back must be a RunningOrder that is '
                   'still completed; got %r' % (rr,))
    if refuses is not None and refuses != ['MosCompletedMergeError', True]:
        out.append('the completed running order written out and read back must refuse the message with MosCompletedMergeError '
                   'and stay unchanged; got %r' % (refuses,))
    if o.get('werror') is not None and o['werror'] != {'err': 'MosCompletedMergeError', 'unchanged': True}:
        out.append('adding to the completed running order with warnings promoted to errors (-W error) '
                   'must raise MosCompletedMergeError and change nothing; got %r' % (o['werror'],))
    return out


# ---- replay of a recorded input ------------------------------------------------------------------

def replay_add(pid, rec):
    """Re-run one recorded (ro_text, msg_text) on the current tree; returns (still_failing, detail)."""
    from . import lean
    if 'flags_route' in rec:
        oc2 = Outcome(pid)
        o = _impl_one((rec['ro_text'], rec['msg_text']))
        if 'err' in o:
            flags_route(oc2, pid, [({'label': 'replay', 'cls': rec.get('cls', '?')}, (rec['ro_text'], rec['msg_text']), o)])
        return bool(oc2.failing), {'failing': [f['impl'] for f in oc2.failing]}
    if 'file_route' in rec:
        oc2 = Outcome(pid)
        file_route(oc2, pid)
        return bool(oc2.failing), {'failing': [f['label'] for f in oc2.failing]}
    if 'payload_route' in rec:
        oc2 = Outcome(pid)
        collection_payload_route(oc2, pid, [({'label': 'replay', 'cls': rec.get('cls', '?')}, (rec['ro_text'], rec['msg_text']), None)], limit=1)
        return bool(oc2.failing), {'failing': [f['label'] for f in oc2.failing]}
    if 'nonstrict_route' in rec:
        oc2 = Outcome(pid)
        o = _impl_one((rec['ro_text'], rec['msg_text']))
        if 'err' in o:
            nonstrict_route(oc2, [({'label': 'replay', 'cls': rec.get('cls', '?')}, (rec['ro_text'], rec['msg_text']), o)])
        return bool(oc2.failing), {'failing': [f['impl'] for f in oc2.failing]}
    if 'route' in rec:
        oc2 = Outcome(pid)
        o = _impl_one((rec['ro_text'], rec['msg_text']))
        if 'err' in o:
            collection_route(oc2, [({'label': 'replay', 'cls': rec.get('cls', '?')}, (rec['ro_text'], rec['msg_text']), o)])
        return bool(oc2.failing), {'failing': [f['impl'] for f in oc2.failing]}
    if rec.get('history_level'):
        from . import hist_run
        before, o = hist_run.replay_live(rec['live_history'])
        if o is None:
            return False, {'note': 'the last step of the recorded history is no longer classified'}
        r = lean.run_batch([{'op': 'add', 'ro': TJ.parse(rec['ro_text']), 'msg': TJ.parse(rec['msg_text']),
                             'impl': {'err': o['err'], 'warns': o['warns'], 'ro': o['ro']}}])[0]
        failing = any(r.get('props', {}).get(k, {}).get('dom') and not r['props'][k]['holds'] for k in [pid] + EXTRA_KEYS.get(pid, []))
        return failing, {'impl': {'err': o['err'], 'warns': o['warns'], 'ro': TJ.to_text(o['ro'])}, 'props': r.get('props')}
    if 'live_history' in rec:
        # object re-use / direct msg.merge(ro): only the live history reproduces the step
        from . import hist_run
        before, o = hist_run.replay_live(rec['live_history'])
        if o is None:
            return False, {'note': 'the last step of the recorded history is no longer classified'}
        ro_t, msg_t = before, TJ.parse(rec['msg_text'])
    else:
        o = _impl_one((rec['ro_text'], rec['msg_text']))
        ro_t, msg_t = TJ.parse(rec['ro_text']), TJ.parse(rec['msg_text'])
    if 'ro_load' in o:
        return True, {'impl': o}
    req = {'op': 'add', 'ro': ro_t, 'msg': msg_t}
    if 'classify_err' not in o:
        req['impl'] = {'err': o['err'], 'warns': o['warns'], 'ro': o['ro']}
    r = lean.run_batch([req])[0]
    detail = {'impl': {k: (TJ.to_text(v) if k == 'ro' else v) for k, v in o.items()},
              'model': {k: (TJ.to_text(v) if k == 'ro' else v) for k, v in r.get('model', {}).items()},
              'props': r.get('props')}
    failing = False
    if pid == 'C07' and 'err' in o and c07_extra(o):
        failing = True
        detail['c07'] = c07_extra(o)
    if 'props' in r:
        for key in [pid] + EXTRA_KEYS.get(pid, []):
            v = r['props'].get(key)
            if v and v['dom'] and not v['holds']:
                failing = True
                if key == 'C05any' and not r['props']['C05total']['dom']:
                    detail['note'] = 'this is the recorded open finding (unreadable messageID)'

    return failing, detail
