"""Correspondence run for C08 (classification)."""
import itertools
import os
import random
import tempfile
import warnings
from xml.parsers import expat

from . import build as B, gen_fuzz, gen_pos, treejson as TJ
from .build import ABSENT, BLANK
from .core import Outcome, stable_hash
from .treejson import E

TAGS = {'roCreate': 'RunningOrder', 'roStorySend': 'StorySend', 'roStoryAppend': 'StoryAppend',
        'roStoryDelete': 'StoryDelete', 'roStoryInsert': 'StoryInsert', 'roStoryMove': 'StoryMove',
        'roStoryReplace': 'StoryReplace', 'roItemDelete': 'ItemDelete', 'roItemInsert': 'ItemInsert',
        'roItemMoveMultiple': 'ItemMoveMultiple', 'roItemReplace': 'ItemReplace', 'roReplace': 'RunningOrderReplace',
        'roMetadataReplace': 'MetaDataReplace', 'roReadyToAir': 'ReadyToAir', 'roDelete': 'RunningOrderEnd'}


_FILE = None


def _file_path():
    global _FILE
    if _FILE is None or _FILE[0] != os.getpid() or not os.path.isdir(os.path.dirname(_FILE[1])):      # one path per process
        import atexit, shutil
        d = tempfile.mkdtemp(prefix='mrm-c08-file-')
        atexit.register(shutil.rmtree, d, True)
        _FILE = (os.getpid(), os.path.join(d, 'incoming.mos.xml'))
    return _FILE[1]


def classify_impl(source, how='string', filt='ignore'):
    """Classify with the real code under a warning filter; -> {'kind'} | {'err'}"""
    from . import impl
    from mosromgr.mostypes import MosFile
    tmp = None
    impl.apply_cfg(impl.cfg_for((source if isinstance(source, str) else source.hex()) + how + filt))
    try:
        with warnings.catch_warnings():
            warnings.simplefilter(filt)
            if how == 'file':
                # always the same path, rewritten, modification time preserved: what is classified is what the file holds now
                path = _file_path()
                with open(path, 'wb') as f:
                    f.write(source if isinstance(source, bytes) else source.encode('utf-8'))
                os.utime(path, (1000000000, 1000000000))
                mo = MosFile.from_file(path)
            else:
                mo = MosFile.from_string(source)
        return {'kind': type(mo).__name__}
    except Exception as e:  # noqa: BLE001
        return {'err': impl.err_name(e)}
    finally:
        if tmp:
            os.unlink(tmp)


def envelopes(base, rng=None):
    """The same message element inside different envelopes."""
    std = [E('mosID', text='m'), E('ncsID', text='n'), E('messageID', text='12')]
    yield 'standard', E('mos', *(std + [base]))
    yield 'bare', E('mos', base)
    yield 'base-first', E('mos', *([base] + std))
    yield 'unknown-siblings', E('mos', E('foo', E('bar', text='x')), *(std + [base, E('trailer', text='t')]))
    yield 'pretty', E('mos', *[_tail(c, '\n  ') for c in std + [base]], text='\n  ', attrs={'version': '2.8'})
    yield 'other-root', E('envelope', *(std + [base]))


def _tail(t, tail):
    t = list(t)
    t[3] = tail
    return t


def payload_variants(tag):
    full = {
        'roCreate': B.ro_create([B.story('A', [B.item('I1')])]),
        'roStorySend': TJ.find(B.story_send('A', [B.p('x')]), 'roStorySend'),
        'roStoryAppend': TJ.find(B.story_append([B.story('X')]), 'roStoryAppend'),
        'roStoryDelete': TJ.find(B.story_delete(['A']), 'roStoryDelete'),
        'roStoryInsert': TJ.find(B.story_insert('A', [B.story('X')]), 'roStoryInsert'),
        'roStoryMove': TJ.find(B.story_move(['A', 'B']), 'roStoryMove'),
        'roStoryReplace': TJ.find(B.story_replace('A', [B.story('X')]), 'roStoryReplace'),
        'roItemDelete': TJ.find(B.item_delete('A', ['I1']), 'roItemDelete'),
        'roItemInsert': TJ.find(B.item_insert('A', 'I1', [B.item('N')]), 'roItemInsert'),
        'roItemMoveMultiple': TJ.find(B.item_move_multiple('A', ['I1', 'I2']), 'roItemMoveMultiple'),
        'roItemReplace': TJ.find(B.item_replace('A', 'I1', [B.item('N')]), 'roItemReplace'),
        'roReplace': TJ.find(B.ro_replace([B.story('X')]), 'roReplace'),
        'roMetadataReplace': TJ.find(B.metadata_replace([E('roSlug', text='s')]), 'roMetadataReplace'),
        'roReadyToAir': TJ.find(B.ready_to_air(), 'roReadyToAir'),
        'roDelete': TJ.find(B.ro_delete(), 'roDelete'),
    }[tag]
    yield 'full', full
    yield 'empty', E(tag)
    yield 'text-only', E(tag, text='just text')
    yield 'attrs-only', E(tag, attrs={'a': 'b'})
    yield 'nested-other-message', E(tag, E('mosExternalMetadata', E('mosPayload', E('roStoryAppend', E('story')), E('roDelete'))))


def ea_cases():
    ops = ['REPLACE', 'DELETE', 'INSERT', 'SWAP', 'MOVE', 'replace', 'BOGUS', '', ABSENT]
    targets = [('none', ABSENT), ('empty', {}), ('story', {'storyID': 'A'}), ('story+item', {'storyID': 'A', 'itemID': 'I1'}),
               ('item-only', {'itemID': 'I1'}), ('story+blank-item', {'storyID': 'A', 'itemID': BLANK}),
               ('blank-story', {'storyID': BLANK})]
    sources = [('none', []), ('empty', [[]]), ('storyIDs', [B.ids('storyID', ['A', 'B'])]), ('itemIDs', [B.ids('itemID', ['I1', 'I2'])]),
               ('stories', [[B.story('X')]]), ('items', [[B.item('N')]]), ('story+itemID', [[B.story('X')] + B.ids('itemID', ['I1'])]),
               ('blank-itemID', [B.ids('itemID', [BLANK])]), ('two-sources', [B.ids('storyID', ['A']), B.ids('itemID', ['I1'])])]
    for op in ops:
        for tl, t in targets:
            for sl, s in sources:
                yield f'EA op={op!r} target={tl} source={sl}', B.ea(op, t, s)
                if t is not ABSENT and s:
                    # sibling order is not an input: the sources listed before the target, the roID last
                    import copy
                    doc = copy.deepcopy(B.ea(op, t, s))
                    ea = TJ.find(doc, 'roElementAction')
                    ea[4][:] = ([c for c in ea[4] if c[0] == 'element_source'] + [c for c in ea[4] if c[0] == 'element_target']
                                + [c for c in ea[4] if c[0] not in ('element_source', 'element_target')])
                    yield f'EA op={op!r} target={tl} source={sl} (source before target)', doc


def documents(tier):
    """(label, document tree) — every document is well-formed XML."""
    for tag in TAGS:
        for pl, base in payload_variants(tag):
            for el, doc in envelopes(base):
                yield f'{tag} payload={pl} envelope={el}', doc
    yield from ea_cases()
    for el, doc in envelopes(TJ.find(B.ea('MOVE', {'storyID': 'A'}, [B.ids('storyID', ['B'])]), 'roElementAction')):
        yield f'roElementAction envelope={el}', doc
    # no message element / non-MOS XML / message-named elements that are not direct children
    yield 'empty root', E('mos')
    yield 'html', E('html', E('body', E('p', text='hi')))
    yield 'unknown child', E('mos', E('mosID', text='x'), E('roBogus'))
    yield 'deep roDelete', E('mos', E('wrapper', E('roDelete', E('roID', text='r'))))
    yield 'deep roCreate in payload', E('mos', E('mosID'), E('x', E('y', E('roCreate'))))
    yield 'root is a message tag', E('roCreate', E('roID', text='r'))
    # several message elements: the table order decides
    tags = list(TAGS) + ['roElementAction']
    pairs = list(itertools.permutations(tags, 2))
    step = 1 if tier != 'quick' else 5
    for a, b in pairs[::step]:
        ea = TJ.find(B.ea('SWAP', ABSENT, [B.ids('storyID', ['A', 'B'])]), 'roElementAction')
        ea_ = lambda t: ea if t == 'roElementAction' else E(t, E('roID', text='r'))
        yield f'two message elements {a},{b}', E('mos', E('messageID', text='5'), ea_(a), ea_(b))
    yield 'two roDelete', E('mos', E('roDelete'), E('roDelete', E('roID', text='r')))
    yield 'unicode', E('mos', E('mosID', text='Ünï ☃ 𝄞'), E('roDelete', E('roID', text='ρο-ID')))
    # XML namespaces: an element in a namespace is NOT the MOS element of the same local name (MOS has no namespace)
    N = '{urn:example:other}'
    yield 'namespaced: default xmlns on the whole document', E(N + 'mos', E(N + 'mosID', text='m'), E(N + 'messageID', text='5'), E(N + 'roDelete', E(N + 'roID', text='r')))
    yield 'namespaced: prefixed roCreate only', E('mos', E('messageID', text='5'), E(N + 'roCreate', E('roID', text='r'), E('roSlug', text='s')))
    yield 'namespaced: prefixed roStorySend only', E('mos', E(N + 'roStorySend', E('roID', text='r'), E('storyID', text='A'), E('storyBody')))
    yield 'namespaced: foreign roCreate next to a real roDelete', E('mos', E(N + 'roCreate', E('roID', text='r')), E('roDelete', E('roID', text='r')))
    yield 'namespaced: real roStoryAppend next to a foreign roElementAction', E('mos', E(N + 'roElementAction', E('roID', text='r'), attrs={'operation': 'MOVE'}), E('roStoryAppend', E('roID', text='r')))
    yield 'namespaced: prefixed roElementAction only', E('mos', E(N + 'roElementAction', E('roID', text='r'), E('element_source', E('storyID', text='A')), attrs={'operation': 'DELETE'}))
    yield 'namespaced: real message, namespaced payload', E('mos', E('roStoryAppend', E('roID', text='r'), E('story', E('storyID', text='A'), E(N + 'roCreate'), E(N + 'vendor', text='v', attrs={N + 'k': 'v'}))))
    ea_ns = TJ.find(B.ea('MOVE', {'storyID': 'A'}, [B.ids('storyID', ['B'])]), 'roElementAction')
    ea_ns = [ea_ns[0], ea_ns[1], ea_ns[2], ea_ns[3], [([N + c[0]] + list(c[1:])) if c[0] in ('element_target', 'element_source') else c for c in ea_ns[4]]]
    yield 'namespaced: roElementAction with foreign element_target/element_source', E('mos', ea_ns)


def malformed_texts(rng):
    good = TJ.to_text(B.story_move(['A', 'B']))
    out = []
    for cut in (1, 5, len(good) // 2, len(good) - 1):
        out.append(('truncated@%d' % cut, good[:cut]))
    out += [('empty', ''), ('text only', 'hello'), ('unclosed', '<mos><roDelete></mos>'), ('two roots', '<mos/><mos/>'),
            ('bad entity', '<mos>&nope;</mos>'), ('bad char', '<mos>\x01</mos>'), ('attr no quotes', '<mos a=b/>'),
            ('mismatched', '<mos><a></b></mos>'), ('lt in text', '<mos>a < b</mos>'), ('doctype ok', '<!DOCTYPE mos><mos><roDelete/></mos>')]
    for k in range(20):
        pos = rng.randrange(len(good))
        out.append((f'flip@{pos}', good[:pos] + rng.choice('<>&"\x00') + good[pos + 1:]))
    return out


def text_variants(rng):
    """The same documents in other textual forms; some well-formed, some not (expat decides)."""
    decl = '<?xml version="1.0" encoding="UTF-8"?>'
    goods = [TJ.to_text(B.story_send('A', [B.p('x')])), TJ.to_text(B.ro_delete()),
             TJ.to_text(B.ea('SWAP', ABSENT, [B.ids('storyID', ['A', 'B'])])), TJ.to_text(E('mos', E('mosID', text='x'), E('roBogus')))]
    out = []
    for k, g in enumerate(goods):
        forms = [('declaration', decl + g), ('declaration+newline', decl + '\n' + g), ('newline before declaration', '\n' + decl + g),
                 ('blank before declaration', ' ' + decl + '\n' + g), ('tab+newlines before declaration', '\t\n\n' + decl + g),
                 ('blank before root', ' \n ' + g), ('trailing newlines', g + '\n\n'), ('blanks both sides', '\n' + g + '\n'),
                 ('declaration, trailing blank', decl + g + ' \n'), ('comment before root', decl + '<!-- c -->' + g),
                 ('comment after root', g + '<!-- roDelete -->'), ('text after root', g + 'x'), ('text before root', 'x' + g),
                 ('pi before root', '<?target data?>' + g), ('doctype', '<!DOCTYPE mos>' + g),
                 ('second declaration', decl + decl + g), ('declaration after root', g + decl),
                 ('cdata in text', g.replace('<mos>', '<mos><![CDATA[<roDelete/>]]>', 1)),
                 ('commented-out message element', g.replace('<mos>', '<mos><!-- <roCreate/> -->', 1)),
                 ('upper-case declaration', '<?XML version="1.0"?>' + g), ('declaration without version', '<?xml encoding="UTF-8"?>' + g),
                 ('standalone', '<?xml version="1.0" standalone="yes"?>' + g), ('version 1.1', '<?xml version="1.1"?>' + g),
                 ('nul at end', g + '\x00'), ('blank inside closing tag', g[:-1] + ' >'), ('form feed before root', '\x0c' + g)]
        for lbl, t in forms:
            out.append((f'{lbl} #{k}', t))
    return out


def fresh_interpreter_check(oc, sample):
    import json, shutil, subprocess, sys
    from . import impl
    from .lean import VERIF
    tmp = tempfile.mkdtemp(prefix='mrm-c08-')
    try:
        inp = os.path.join(tmp, 'in.json')
        with open(inp, 'w') as f:
            json.dump(sample, f)
        code = ("import json,sys; sys.path.insert(0, %r); from mosromgr.mostypes import MosFile; from mosromgr import exc\n"
                "out=[]\n"
                "for t in json.load(open(%r)):\n"
                "    try: out.append({'kind': type(MosFile.from_string(t)).__name__})\n"
                "    except exc.UnknownMosFileType: out.append({'err': 'UnknownMosFileType'})\n"
                "    except exc.MosInvalidXML: out.append({'err': 'MosInvalidXML'})\n"
                "    except Exception as e: out.append({'err': 'crash:' + type(e).__name__})\n"
                "print(json.dumps(out))" % (impl.REPO, inp))
        env = dict(os.environ, PYTHONDONTWRITEBYTECODE='1')
        env.pop('PYTHONPATH', None)
        p = subprocess.run([sys.executable, '-W', 'error', '-X', 'pycache_prefix=' + os.path.join(tmp, 'pyc'), '-c', code], cwd=tmp, env=env,
                           stdout=subprocess.PIPE, stderr=subprocess.PIPE, text=True, timeout=600)
        oc.evaluations += 1
        oc.in_domain += 1
        oc.count('fresh-interpreter -W error')
        here = [classify_impl(t, 'string', 'error') for t in sample]
        try:
            there = json.loads(p.stdout.strip().split('\n')[-1]) if p.returncode == 0 else None
        except Exception:  # noqa: BLE001
            there = None
        if there != here:
            first = next((i for i, (a, b) in enumerate(zip(there or [], here)) if a != b), 0)
            oc.failing.append({'kind': 'classify', 'text': sample[first], 'label': 'fresh interpreter with -W error and no byte-code cache', 'fresh_w_error': True,
                               'spec': 'the outcome does not depend on the interpreter\'s warning configuration: in a fresh `python -W error` process '
                                       'the library must import and classify as it does here',
                               'expected': here[first], 'impl': (there[first] if there else {'exit': p.returncode, 'stderr': p.stderr[-600:]})})
    finally:
        shutil.rmtree(tmp, ignore_errors=True)


def big_documents():
    """(label, big document text, small twin text)"""
    out = []
    def deep(n, inner='x'):
        return '<em>' * n + inner + '</em>' * n
    for n in (600, 2500):
        for tag, body in (('roStorySend', '<roID>r</roID><storyID>A</storyID><storyBody><p>%s</p></storyBody>'),
                          ('roCreate', '<roID>r</roID><roSlug>s</roSlug><story><storyID>A</storyID><p>%s</p></story>'),
                          ('roElementAction operation="MOVE"', '<roID>r</roID><element_target><storyID>A</storyID></element_target><element_source><storyID>B</storyID><x>%s</x></element_source>'),
                          ('somethingElse', '<y>%s</y>')):
            end = tag.split(' ')[0]
            mk = lambda inner: f'<mos><mosID>m</mosID><messageID>7</messageID><{tag}>{body % inner}</{end}></mos>'
            out.append((f'{end} with {n} nested elements', mk(deep(n)), mk('x')))
    wide = ''.join(f'<story><storyID>S{k}</storyID><item><itemID>i{k}</itemID></item></story>' for k in range(3000))
    out.append(('roStoryAppend with 3000 stories', f'<mos><messageID>7</messageID><roStoryAppend><roID>r</roID>{wide}</roStoryAppend></mos>',
                '<mos><messageID>7</messageID><roStoryAppend><roID>r</roID></roStoryAppend></mos>'))
    out.append(('roDelete after 3000 unknown siblings', '<mos>' + '<junk/>' * 3000 + '<roDelete><roID>r</roID></roDelete></mos>', '<mos><roDelete><roID>r</roID></roDelete></mos>'))
    out.append(('5 MB of text before the message element', '<mos><mosID>' + 'x' * 5000000 + '</mosID><roReadyToAir><roID>r</roID></roReadyToAir></mos>',
                '<mos><mosID>x</mosID><roReadyToAir><roID>r</roID></roReadyToAir></mos>'))
    return out


def expat_ok(text):
    p = expat.ParserCreate()
    try:
        p.Parse(text, True)
        return True
    except expat.ExpatError:
        return False
    except Exception:  # noqa: BLE001
        return False


def run_c08(tier, seed):
    from . import lean
    oc = Outcome('C08')
    rng = random.Random(seed * 13 + 1)
    docs = list(documents(tier))
    for lbl, d in list(docs):
        if rng.random() < (0.5 if tier == 'quick' else 3.0):
            for _ in range(1 if tier == 'quick' else 3):
                try:
                    m = gen_fuzz.mutate(rng, d)
                    TJ.to_text(m)
                    docs.append(('fuzz|' + lbl, m))
                except Exception:  # noqa: BLE001
                    pass
    texts = [TJ.to_text(d) for _, d in docs]
    reqs = [{'op': 'classify', 'doc': TJ.parse(t)} for t in texts]
    resps = lean.run_batch(reqs)
    for (lbl, _), text, r in zip(docs, texts, resps):
        oc.evaluations += 1
        oc.in_domain += 1
        rec = {'kind': 'classify', 'text': text, 'label': lbl}
        model = {k: r[k] for k in ('kind', 'err') if k in r}
        spec = r['spec']
        obs = {}
        for filt in ('ignore', 'default', 'error'):
            obs['string/' + filt] = classify_impl(text, 'string', filt)
        obs['bytes/ignore'] = classify_impl(text.encode('utf-8'), 'string', 'ignore')
        obs['file/ignore'] = classify_impl(text, 'file', 'ignore')
        obs['file/error'] = classify_impl(text, 'file', 'error')
        base = obs['string/ignore']
        oc.count('outcome:' + (base.get('kind') or base.get('err')))
        oc.count('msg-elems=%d' % min(len(r['msg_elems']), 3))
        if base != model:
            oc.disagreements.append(dict(rec, what='classification', impl=base, model=model))
        bad = [k for k, v in obs.items() if v != spec]
        if bad:
            oc.failing.append(dict(rec, spec='class determined solely by the message element (specClassify); same under every '
                                   'warning filter and from file/str/bytes', expected=spec, impl={k: obs[k] for k in bad}))
        h = stable_hash(text)
        if h not in oc.nontrivial:
            oc.nontrivial.add(h)
            if len(oc.samples) < 5 and len(oc.nontrivial) % 211 == 1:
                oc.samples.append({'label': lbl, 'text': text[:600], 'outcome': base})
    # the outcome is a function of the document alone: every document again, twice, in shuffled order
    # (whatever was classified before must not matter)
    first = {}
    for (lbl, _), text, r in zip(docs, texts, resps):
        first.setdefault(text, (lbl, r['spec']))
    order = list(first)
    for rnd in range(2):
        rng.shuffle(order)
        for text in order:
            lbl, spec = first[text]
            got = classify_impl(text, 'string', 'ignore')
            oc.evaluations += 1
            oc.in_domain += 1
            if got != spec:
                oc.failing.append({'kind': 'classify', 'text': text, 'label': lbl + f' (re-classified in shuffled order, round {rnd})',
                                   'spec': 'the class depends on the document alone, not on what was classified before', 'expected': spec, 'impl': got,
                                   'preceding': order[max(0, order.index(text) - 3):order.index(text)]})
    oc.count('reclassified-shuffled', 2 * len(order))
    # documents of equal byte length but different classes, one after the other through the same file path
    same_len = ['<mos><%s><roID>r</roID></%s></mos>' % (t, t) for t in ('roStoryDelete', 'roStoryAppend', 'roStoryInsert', 'roStoryDelete', 'roStorySendXX'[:11] + 'XX')]
    same_len += ['<mos><%s><roID>r</roID></%s></mos>' % (t, t) for t in ('roItemDelete', 'roItemInsert', 'roReadyToAir', 'roItemDelete')]
    for t in same_len:
        exp = classify_impl(t, 'string', 'ignore')
        got = classify_impl(t, 'file', 'ignore')
        oc.evaluations += 1
        oc.in_domain += 1
        oc.count('same-length-sequence')
        if got != exp:
            oc.failing.append({'kind': 'classify', 'text': t, 'label': 'equal-length documents through one file path', 'preceding_files': same_len,
                               'spec': 'same class from a file as from a string, whatever the file held before', 'expected': exp, 'impl': {'file': got}})
    # ElementAction.from_file / from_string (the typed entry point of roElementAction) classify like MosFile's
    from mosromgr.mostypes import ElementAction
    for lbl, d in list(ea_cases())[::7]:
        t = TJ.to_text(d)
        exp = classify_impl(t, 'string', 'ignore')
        got = {}
        path = _file_path()
        with open(path, 'wb') as f:
            f.write(t.encode('utf-8'))
        for name, mk in (('ElementAction.from_string', lambda: ElementAction.from_string(t)), ('ElementAction.from_string(bytes)', lambda: ElementAction.from_string(t.encode())),
                         ('ElementAction.from_file', lambda: ElementAction.from_file(path))):
            try:
                with warnings.catch_warnings():
                    warnings.simplefilter('error')
                    got[name] = {'kind': type(mk()).__name__}
            except Exception as e:  # noqa: BLE001
                from . import impl as _impl
                got[name] = {'err': _impl.err_name(e)}
        oc.evaluations += 1
        oc.in_domain += 1
        oc.count('typed-entry-point')
        if any(v != exp for v in got.values()):
            oc.failing.append({'kind': 'classify', 'text': t, 'label': 'ElementAction typed entry points: ' + lbl, 'typed_ea': True,
                               'spec': 'ElementAction.from_file / from_string classify a roElementAction like MosFile.from_*', 'expected': exp, 'impl': got})
    # a fresh interpreter started with -W error and no byte-code cache: compiling and importing the library must not
    # warn (a SyntaxWarning / DeprecationWarning at import would make every classification fail there)
    fresh_interpreter_check(oc, [t for t in texts[::max(1, len(texts) // 40)]])
    # size and depth are "other content": a very deep or very wide document is classified like its small twin
    # (the documents are built as text - nothing here walks them recursively)
    for lbl, big, twin in big_documents():
        exp = classify_impl(twin, 'string', 'ignore')
        got = {'string': classify_impl(big, 'string', 'ignore'), 'bytes': classify_impl(big.encode('utf-8'), 'string', 'error'),
               'file': classify_impl(big, 'file', 'ignore')}
        from . import coll_family, impl as _impl2
        from mosromgr.mostypes import MosFile as _MF
        coll_family.install_fake_s3(coll_family.FakeS3({'k/big.mos.xml': big.encode('utf-8')}))
        try:
            with warnings.catch_warnings():
                warnings.simplefilter('ignore')
                got['s3'] = {'kind': type(_MF.from_s3(bucket_name='b', mos_file_key='k/big.mos.xml')).__name__}
        except Exception as e:  # noqa: BLE001
            got['s3'] = {'err': _impl2.err_name(e)}
        oc.evaluations += 1
        oc.in_domain += 1
        oc.count('big-documents')
        if any(v != exp for v in got.values()) or 'err' in exp and exp['err'] not in ('UnknownMosFileType',):
            oc.failing.append({'kind': 'classify', 'label': 'big document: ' + lbl, 'text': big if len(big) < 200000 else big[:2000] + '…', 'big': lbl,
                               'spec': 'the class does not depend on other content: a very deep / very wide document is classified like its small twin',
                               'expected': exp, 'impl': got})
        oc.nontrivial.add(stable_hash(['big', lbl]))
    # encodings: the same document as bytes in other encodings, as a file, and as str
    enc_n = 0
    for enc, decl in (('iso-8859-1', '<?xml version="1.0" encoding="ISO-8859-1"?>'), ('utf-16', '<?xml version="1.0" encoding="UTF-16"?>'),
                      ('utf-8', '<?xml version="1.0" encoding="UTF-8"?>')):
        body = TJ.to_text(E('mos', E('mosID', text='café'), E('roDelete', E('roID', text='RÖ-é'))))
        data = (decl + body).encode(enc)
        expect = classify_impl(body, 'string', 'ignore')
        got_b = classify_impl(data, 'string', 'ignore')
        got_f = classify_impl(data, 'file', 'ignore')
        oc.evaluations += 2
        enc_n += 1
        if got_b != expect or got_f != expect:
            oc.failing.append({'kind': 'classify-bytes', 'encoding': enc, 'data_hex': data.hex(), 'label': f'bytes in {enc}',
                               'spec': 'same class from a file, a string or bytes', 'expected': expect,
                               'impl': {'bytes': got_b, 'file': got_f}})
    oc.count('encodings', enc_n)
    # ... and as an S3 object: bytes are bytes wherever they come from - other encodings, a BOM, and bytes that are NOT
    # valid in the encoding they claim (a rejected document is rejected from every source)
    import codecs
    from . import io_family
    body = TJ.to_text(E('mos', E('mosID', text='caf\u00e9'), E('roReadyToAir', E('roID', text='R\u00d6'))))
    byte_docs = [('utf-16 declared', ('<?xml version="1.0" encoding="UTF-16"?>' + body).encode('utf-16')),
                 ('utf-16-le with BOM, undeclared', codecs.BOM_UTF16_LE + body.encode('utf-16-le')),
                 ('utf-8 with BOM', codecs.BOM_UTF8 + body.encode('utf-8')),
                 ('iso-8859-1 declared', ('<?xml version="1.0" encoding="ISO-8859-1"?>' + body).encode('iso-8859-1')),
                 ('iso-8859-1 bytes claiming utf-8', ('<?xml version="1.0" encoding="UTF-8"?>' + body).encode('iso-8859-1')),
                 ('stray 0xE9 in undeclared text', body.encode('utf-8').replace('caf\u00e9'.encode('utf-8'), b'caf\xe9')),
                 ('truncated utf-8 sequence', body.encode('utf-8').replace('R\u00d6'.encode('utf-8'), b'R\xc3')),
                 ('ascii only', TJ.to_text(E('mos', E('roStoryDelete', E('roID', text='r')))).encode('ascii'))]
    for lbl, data in byte_docs:
        res = io_family.untyped(io_family.from_all_sources(None, data))
        outs = {k_: (v.get('cls') or v.get('err')) for k_, v in res.items()}
        oc.evaluations += 1
        oc.in_domain += 1
        oc.count('bytes-from-every-source')
        if len(set(outs.values())) != 1 or any(str(v).startswith('crash:') for v in outs.values()):
            oc.failing.append({'kind': 'classify-bytes', 'encoding': lbl, 'data_hex': data.hex(), 'label': f'bytes from file / bytes / S3: {lbl}', 'all_sources': True,
                               'spec': 'the same bytes give the same class, or are rejected with the same library exception, from a file, as bytes and as an S3 object',
                               'expected': outs.get('bytes'), 'impl': outs})
    # textual forms: malformed text raises MosInvalidXML exactly when the XML parser rejects it (oracle: expat
    # itself), a well-formed textual variant (declaration, comments, blanks, CDATA ...) is classified like its
    # tree - and both are the same from a string, bytes and a file
    variants = malformed_texts(rng) + text_variants(rng)
    oks = [expat_ok(t) for _, t in variants]
    vresps = iter(lean.run_batch([{'op': 'classify', 'doc': TJ.parse(t)} for (_, t), ok in zip(variants, oks) if ok]))
    for (lbl, text), ok in zip(variants, oks):
        oc.evaluations += 1
        oc.in_domain += 1
        expected = next(vresps)['spec'] if ok else {'err': 'MosInvalidXML'}
        obs = {'string/error': classify_impl(text, 'string', 'error'), 'string/ignore': classify_impl(text, 'string', 'ignore'),
               'bytes/ignore': classify_impl(text.encode('utf-8'), 'string', 'ignore'),
               'file/ignore': classify_impl(text, 'file', 'ignore'), 'file/error': classify_impl(text, 'file', 'error')}
        oc.count('textual:' + ('parses' if ok else 'rejected'))
        bad = [k for k, v in obs.items() if v != expected]
        if bad:
            oc.failing.append({'kind': 'classify', 'text': text, 'label': 'textual form: ' + lbl,
                               'spec': 'malformed XML raises MosInvalidXML, well-formed text is classified by its message element '
                                       '(oracle for well-formedness: expat); same from a file, a string or bytes',
                               'expat_accepts': ok, 'expected': expected, 'impl': {k: obs[k] for k in bad}})
        oc.nontrivial.add(stable_hash(text))
    # static tie: the tables in the Python source, entry by entry and in order, against the model's
    from . import static_tables, impl as _impl
    probs = static_tables.check(_impl.REPO)
    oc.extra['static_tables'] = 'tag_class_map (16 entries, order) and the roElementAction table (10 entries) read from the source with ast match the Lean tables; exception hierarchy as assumed' if not probs else probs
    for pr in probs:
        oc.disagreements.append({'kind': 'static', 'what': 'static comparison of the classification tables / exception hierarchy', 'problem': pr})
    oc.exhaustive = False
    oc.extra['exhaustive_part'] = 'the roElementAction shape space and the message-element x payload x envelope grid are enumerated completely; fuzzed documents are samples'
    oc.extra['warning_filters'] = ['ignore', 'default', 'error']
    oc.extra['sources'] = ['str', 'bytes (utf-8, iso-8859-1, utf-16)', 'file']
    oc.rule = ('15 message elements x 5 payload shapes x 6 envelopes; the complete roElementAction space 9 operations x 7 '
               'targets x 9 sources; non-MOS XML; pairs of message elements; each under warning filters ignore/default/error '
               'and from str/bytes/file; truncated and garbled text against expat; distinct by text hash, all non-trivial')
    return oc


def replay(pid, fl):
    from . import lean
    import json
    if fl['kind'] == 'classify-bytes' and fl.get('all_sources'):
        from . import io_family
        res = io_family.untyped(io_family.from_all_sources(None, bytes.fromhex(fl['data_hex'])))
        outs = {k_: (v.get('cls') or v.get('err')) for k_, v in res.items()}
        print(json.dumps({'impl': outs}))
        bad = len(set(outs.values())) != 1 or any(str(v).startswith('crash:') for v in outs.values())
    elif fl['kind'] == 'classify-bytes':
        data = bytes.fromhex(fl['data_hex'])
        got = {'bytes': classify_impl(data, 'string', 'ignore'), 'file': classify_impl(data, 'file', 'ignore')}
        print(json.dumps({'impl': got, 'expected': fl['expected']}))
        bad = any(v != fl['expected'] for v in got.values())
    else:
        if fl.get('fresh_w_error'):
            oc2 = Outcome(pid)
            fresh_interpreter_check(oc2, [fl['text']])
            if oc2.failing:
                print(f'VIOLATION property={pid} replay=(this file): still fails on the current tree')
                return 1
            print(f'{pid}: the recorded input no longer fails on the current tree')
            return 0
        if fl.get('big'):
            bad = False
            for lbl, big, twin in big_documents():
                if lbl == fl['big']:
                    exp = classify_impl(twin, 'string', 'ignore')
                    bad = any(classify_impl(big, how, 'ignore') != exp for how in ('string', 'file'))
            if bad:
                print(f'VIOLATION property={pid} replay=(this file): still fails on the current tree')
                return 1
            print(f'{pid}: the recorded input no longer fails on the current tree')
            return 0
        text = fl['text']
        for prev in fl.get('preceding', []):
            classify_impl(prev, 'string', 'ignore')
        ok = expat_ok(text)
        obs = {f: classify_impl(text, 'string', f) for f in ('ignore', 'default', 'error')}
        obs['file'] = classify_impl(text, 'file', 'error')
        obs['bytes'] = classify_impl(text.encode('utf-8'), 'string', 'ignore')
        if ok:
            r = lean.run_batch([{'op': 'classify', 'doc': TJ.parse(text)}])[0]
            bad = any(v != r['spec'] for v in obs.values())
            print(json.dumps({'impl': obs, 'spec': r['spec']}))
        else:
            bad = any(v != {'err': 'MosInvalidXML'} for v in obs.values())
            print(json.dumps({'impl': obs, 'expat_accepts': ok}))
    if bad:
        print(f'VIOLATION property={pid} replay=(this file): still fails on the current tree')
        return 1
    print(f'{pid}: the recorded input no longer fails on the current tree')
    return 0
