"""G-pos: bounded-exhaustive, position-sensitive merge cases (DESIGN.md §5).

Every case is a dict  {'family', 'cls', 'label', 'ro': tree, 'msg': tree}.
The enumeration is deterministic (no randomness): the scope is enumerated completely.
"""
import itertools

from . import build as B
from .build import ABSENT, BLANK
from .treejson import E

UNK = 'ZZ'
NAMES = 'ABCDEFGH'


def std_items(prefix, m, pat='plain'):
    """Body of a story: m items I1..Im with <p>/other elements interleaved according to pat."""
    its = [B.item(f'I{k + 1}') for k in range(m)]
    if pat == 'plain':
        return its
    out = []
    if pat in ('lead', 'every'):
        out.append(B.p(f'{prefix} intro'))
    for k, it in enumerate(its):
        if k and pat in ('between', 'every'):
            out.append(B.p(f'{prefix} para {k}') if k % 2 else E('storyNum', text=str(k)))
        out.append(it)
    if pat in ('trail', 'every'):
        out.append(B.p(f'{prefix} outro'))
    return out


def mk_story(sid, m=2, pat='between', md=None):
    return B.story(sid, std_items(sid, m, pat), md=md)


def new_story(sid):
    return B.story(sid, [B.item(f'{sid}-i1'), B.p(f'text of {sid}'), B.item(f'{sid}-i2')])


def story_ros(ns, patterns):
    for n in ns:
        ids = list(NAMES[:n])
        for pat in patterns:
            yield ids, pat, B.ro_doc([mk_story(s) for s in ids], pattern=pat)


def refs(ids, *, blank=True, absent=False, unknown=True):
    out = list(ids)
    if unknown:
        out.append(UNK)
    if blank:
        out.append(BLANK)
    if absent:
        out.append(ABSENT)
    return out


def rl(x):
    """label of a reference"""
    return 'blank' if x is BLANK else ('absent' if x is ABSENT else x)


def source_tuples(ids, max_len, *, faults=True):
    """Ordered tuples of distinct existing IDs (length 1..max_len), plus, for each tuple and each
    position k, the variants with the k-th source replaced by an unknown / blank / repeated ID."""
    seen = set()
    for L in range(1, max_len + 1):
        for tup in itertools.permutations(ids, L):
            yield tup
            if not faults:
                continue
            for k in range(L):
                for bad in (UNK, BLANK, 'REPEAT'):
                    if bad == 'REPEAT':
                        if L < 2:
                            continue
                        v = list(tup)
                        v[k] = tup[(k + 1) % L]
                    else:
                        v = list(tup)
                        v[k] = bad
                    key = tuple(('\0' if x is BLANK else x) for x in v)
                    if key in seen:
                        continue
                    seen.add(key)
                    yield tuple(v)
    if faults:
        for bad in (UNK, BLANK):
            yield (bad,)


def carried_variants(ids):
    """Lists of carried stories for insert-like messages: fresh, several, with duplicates of
    existing stories at each position."""
    X, Y = new_story('X'), new_story('Y')
    out = [('X', [X]), ('XY', [X, Y])]
    if ids:
        d = new_story(ids[-1])
        out += [('dup', [d]), ('X,dup,Y', [X, d, Y]), ('dup,X', [d, X]), ('X,X', [X, new_story('X')])]
    return out


def story_cases(ns=(0, 1, 2, 3, 4), patterns=B.PATTERNS, max_src=2, big_patterns=('every', 'lead')):
    """All story-level classes over all running orders of the scope."""
    for ids, pat, ro in story_ros(ns, patterns):
        n = len(ids)
        if n >= 4 and pat not in big_patterns:
            continue

        def case(cls, label, msg):
            return {'family': 'story', 'cls': cls, 'label': f'{cls}|n={n}|{pat}|{label}',
                    'ro': ro, 'msg': msg}

        # roStoryMove: zero, one or two storyIDs
        yield case('StoryMove', 'no-ids', B.story_move([]))
        for s in refs(ids):
            yield case('StoryMove', f'{rl(s)}->end(absent)', B.story_move([s]))
            for t in refs(ids):
                yield case('StoryMove', f'{rl(s)}->{rl(t)}', B.story_move([s, t]))
        # roStoryAppend
        for lbl, car in carried_variants(ids)[:4]:
            yield case('StoryAppend', lbl, B.story_append(car))
        yield case('StoryAppend', 'none', B.story_append([]))
        # roStoryDelete / EA story DELETE
        for tup in source_tuples(ids, max_src):
            lbl = ','.join(rl(x) for x in tup)
            yield case('StoryDelete', lbl, B.story_delete(tup))
            yield case('EAStoryDelete', lbl, B.ea('DELETE', ABSENT, [B.ids('storyID', tup)]))
            if len(tup) == 2:
                yield case('EAStoryDelete', lbl + '|2src',
                           B.ea('DELETE', ABSENT, [B.ids('storyID', tup[:1]), B.ids('storyID', tup[1:])]))
        yield case('StoryDelete', 'none', B.story_delete([]))
        # roStoryInsert / roStoryReplace / EA INSERT / EA REPLACE
        for t in refs(ids, absent=True):
            for lbl, car in carried_variants(ids):
                yield case('StoryInsert', f'{rl(t)}<-{lbl}', B.story_insert(t, car))
                yield case('EAStoryInsert', f'{rl(t)}<-{lbl}',
                           B.ea('INSERT', {'storyID': t}, [car]))
            for lbl, car in [('none', [])] + carried_variants(ids)[:3]:
                yield case('StoryReplace', f'{rl(t)}<-{lbl}', B.story_replace(t, car))
                yield case('EAStoryReplace', f'{rl(t)}<-{lbl}',
                           B.ea('REPLACE', {'storyID': t}, [car]))
            # roStorySend of the t-th story
            yield case('StorySend', f'{rl(t)}',
                       B.story_send(t, [B.p('sent para'), B.item('sent-i1'), B.p(None), B.item('sent-i2')],
                                    pre=[E('storyNum', text='7')], post=[E('mosExternalMetadata', E('mosSchema', text='s'))]))
        for lbl, car in carried_variants(ids)[:2]:
            yield case('EAStoryInsert', f'no-target<-{lbl}', B.ea('INSERT', ABSENT, [car]))
            yield case('EAStoryReplace', f'no-target<-{lbl}', B.ea('REPLACE', ABSENT, [car]))
        # EA SWAP
        for a in refs(ids):
            for b in refs(ids):
                yield case('EAStorySwap', f'{rl(a)}<>{rl(b)}',
                           B.ea('SWAP', {'storyID': BLANK}, [B.ids('storyID', [a, b])]))
        if ids:
            yield case('EAStorySwap', 'no-target', B.ea('SWAP', ABSENT, [B.ids('storyID', [ids[0], ids[-1]])]))
        # EA MOVE
        for tup in source_tuples(ids, max_src):
            lbl = ','.join(rl(x) for x in tup)
            for t in refs(ids, absent=True):
                yield case('EAStoryMove', f'{lbl}->{rl(t)}',
                           B.ea('MOVE', {'storyID': t}, [B.ids('storyID', tup)]))
            yield case('EAStoryMove', f'{lbl}->no-target', B.ea('MOVE', ABSENT, [B.ids('storyID', tup)]))
            if len(tup) == 2:
                yield case('EAStoryMove', f'{lbl}->no-target|2src',
                           B.ea('MOVE', ABSENT, [B.ids('storyID', tup[:1]), B.ids('storyID', tup[1:])]))


def item_ros(ms, item_patterns, positions=(0, 1)):
    """Running orders for item-level cases: three stories A, B, C that all carry the *same* item
    IDs; the addressed story (at each of `positions`) has m items laid out by item pattern."""
    for m in ms:
        iids = [f'I{k + 1}' for k in range(m)]
        for ipat in item_patterns:
            for pos in positions:
                sids = ['A', 'B', 'C']
                stories = []
                for k, s in enumerate(sids):
                    if k == pos:
                        stories.append(mk_story(s, m, ipat))
                    else:
                        stories.append(mk_story(s, 2, 'between'))
                ro = B.ro_doc(stories, pattern='every' if pos else 'lead')
                yield sids, sids[pos], iids, ipat, ro


def new_item(iid):
    return B.item(iid, extra=[E('itemEdDur', text='5')])


def item_cases(ms=(0, 1, 2, 3, 4), item_patterns=('plain', 'lead', 'between', 'trail', 'every'),
               max_src=2, positions=(0, 1), big_patterns=('every', 'plain')):
    for sids, sid, iids, ipat, ro in item_ros(ms, item_patterns, positions):
        m = len(iids)
        if m >= 4 and ipat not in big_patterns:
            continue

        def case(cls, label, msg):
            return {'family': 'item', 'cls': cls, 'label': f'{cls}|m={m}|{ipat}|in={sid}|{label}',
                    'ro': ro, 'msg': msg}

        X, Y = new_item('NX'), new_item('NY')
        carried = [('none', []), ('X', [X]), ('XY', [X, Y])]
        if iids:
            carried.append(('X,dup', [X, new_item(iids[0])]))
        # story reference variants are explored with one fixed item payload
        for sref in (UNK, BLANK, ABSENT):
            r = rl(sref)
            i0 = iids[0] if iids else UNK
            yield case('ItemDelete', f'story={r}', B.item_delete(sref, [i0]))
            yield case('ItemInsert', f'story={r}', B.item_insert(sref, i0, [X]))
            yield case('ItemInsert', f'story={r}|end', B.item_insert(sref, BLANK, [X]))
            yield case('ItemReplace', f'story={r}', B.item_replace(sref, i0, [X]))
            yield case('ItemMoveMultiple', f'story={r}', B.item_move_multiple(sref, [i0, BLANK]))
            yield case('EAItemReplace', f'story={r}', B.ea('REPLACE', {'storyID': sref, 'itemID': i0}, [[X]]))
            yield case('EAItemDelete', f'story={r}', B.ea('DELETE', {'storyID': sref}, [B.ids('itemID', [i0])]))
            yield case('EAItemInsert', f'story={r}', B.ea('INSERT', {'storyID': sref, 'itemID': i0}, [[X]]))
            yield case('EAItemInsert', f'story={r}|end', B.ea('INSERT', {'storyID': sref, 'itemID': BLANK}, [[X]]))
            yield case('EAItemSwap', f'story={r}', B.ea('SWAP', {'storyID': sref}, [B.ids('itemID', [i0, i0])]))
            yield case('EAItemMove', f'story={r}', B.ea('MOVE', {'storyID': sref, 'itemID': BLANK}, [B.ids('itemID', [i0])]))
        yield case('EAItemDelete', 'no-target', B.ea('DELETE', ABSENT, [B.ids('itemID', [UNK])]))
        yield case('EAItemSwap', 'no-target', B.ea('SWAP', ABSENT, [B.ids('itemID', [UNK, UNK])]))
        # deletes
        for tup in source_tuples(iids, max_src):
            lbl = ','.join(rl(x) for x in tup)
            yield case('ItemDelete', lbl, B.item_delete(sid, tup))
            yield case('EAItemDelete', lbl, B.ea('DELETE', {'storyID': sid}, [B.ids('itemID', tup)]))
            if len(tup) == 2:
                yield case('EAItemDelete', lbl + '|2src',
                           B.ea('DELETE', {'storyID': sid}, [B.ids('itemID', tup[:1]), B.ids('itemID', tup[1:])]))
        yield case('ItemDelete', 'none', B.item_delete(sid, []))
        # inserts / replaces
        for t in refs(iids, absent=True):
            for lbl, car in carried:
                yield case('ItemInsert', f'{rl(t)}<-{lbl}', B.item_insert(sid, t, car))
                yield case('ItemReplace', f'{rl(t)}<-{lbl}', B.item_replace(sid, t, car))
                if t is not ABSENT:
                    yield case('EAItemInsert', f'{rl(t)}<-{lbl}',
                               B.ea('INSERT', {'storyID': sid, 'itemID': t}, [car]))
                    yield case('EAItemReplace', f'{rl(t)}<-{lbl}',
                               B.ea('REPLACE', {'storyID': sid, 'itemID': t}, [car]))
        # moves: roItemMoveMultiple (last ID is the target), EA MOVE
        yield case('ItemMoveMultiple', 'no-ids', B.item_move_multiple(sid, []))
        for t in refs(iids):
            yield case('ItemMoveMultiple', f'->{rl(t)}', B.item_move_multiple(sid, [t]))
        for tup in source_tuples(iids, max_src):
            lbl = ','.join(rl(x) for x in tup)
            for t in refs(iids):
                yield case('ItemMoveMultiple', f'{lbl}->{rl(t)}', B.item_move_multiple(sid, list(tup) + [t]))
                yield case('EAItemMove', f'{lbl}->{rl(t)}',
                           B.ea('MOVE', {'storyID': sid, 'itemID': t}, [B.ids('itemID', tup)]))
        # swaps
        for a in refs(iids):
            for b in refs(iids):
                yield case('EAItemSwap', f'{rl(a)}<>{rl(b)}',
                           B.ea('SWAP', {'storyID': sid}, [B.ids('itemID', [a, b])]))


def other_cases():
    """roReadyToAir, roMetadataReplace, roReplace, roDelete against a few running orders."""
    for ids, pat, ro in story_ros((0, 2, 3), ('lead', 'every')):
        n = len(ids)

        def case(cls, label, msg):
            return {'family': 'other', 'cls': cls, 'label': f'{cls}|n={n}|{pat}|{label}', 'ro': ro, 'msg': msg}

        yield case('ReadyToAir', '-', B.ready_to_air())
        yield case('RunningOrderEnd', '-', B.ro_delete())
        yield case('RunningOrderReplace', 'XY', B.ro_replace([new_story('X'), new_story('Y')], pattern='between'))
        yield case('RunningOrderReplace', 'empty', B.ro_replace([], pattern='lead'))
        md1 = B.timing_md(duration='5', schema='s1')
        md2 = B.timing_md(duration='6', schema='s2')
        yield case('MetaDataReplace', 'slug', B.metadata_replace([E('roSlug', text='new slug')]))
        yield case('MetaDataReplace', 'slug+new', B.metadata_replace([E('roSlug', text='new slug'), E('roEdDur', text='00:10:00')]))
        yield case('MetaDataReplace', 'md', B.metadata_replace([md1]))
        yield case('MetaDataReplace', 'md,md', B.metadata_replace([md1, md2]))
        yield case('MetaDataReplace', 'trigger twice', B.metadata_replace([E('roTrigger', text='t1'), E('roTrigger', text='t2')]))
        yield case('MetaDataReplace', 'none', B.metadata_replace([]))


def all_cases(tier='quick'):
    if tier == 'quick':
        yield from story_cases()
        yield from item_cases()
    else:
        yield from story_cases(ns=(0, 1, 2, 3, 4, 5), max_src=3, big_patterns=B.PATTERNS)
        yield from item_cases(ms=(0, 1, 2, 3, 4, 5), max_src=3, positions=(0, 1, 2),
                              big_patterns=('plain', 'lead', 'between', 'trail', 'every'))
    yield from other_cases()
