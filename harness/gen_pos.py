"""G-pos: bounded-exhaustive, position-sensitive merge cases (DESIGN.md §5).

Every case is a dict  {'family', 'cls', 'label', 'ro': tree, 'msg': tree}.
The enumeration is deterministic (no randomness): the scope is enumerated completely.
"""
import itertools

from . import build as B
from . import treejson as TJ
from .build import ABSENT, BLANK
from .treejson import E

UNK = 'ZZ'
NAMES = 'ABCDEFGH'


def std_items(prefix, m, pat='plain'):
    """Body of a story: m items I1..Im with <p>/other elements interleaved according to pat."""
    its = [B.item(f'I{k + 1}') for k in range(m)]
    if pat == 'plain':
        return its
    out = []
    if pat in ('lead', 'every'):
        out.append(B.p(f'{prefix} intro'))
    for k, it in enumerate(its):
        if k and pat in ('between', 'every'):
            out.append(B.p(f'{prefix} para {k}') if k % 2 else E('storyNum', text=str(k)))
        out.append(it)
    if pat in ('trail', 'every'):
        out.append(B.p(f'{prefix} outro'))
    return out


def mk_story(sid, m=2, pat='between', md=None):
    if pat == 'first':
        # the items come first: child index 0 of the story is an item, the storyID follows them
        return E('story', *(std_items(sid, m, 'plain') + [E('storyID', text=sid), E('storySlug', text=f'slug of {sid}'), B.p(f'{sid} outro')]))
    return B.story(sid, std_items(sid, m, pat), md=md)


def new_story(sid):
    return B.story(sid, [B.item(f'{sid}-i1'), B.p(f'text of {sid}'), B.item(f'{sid}-i2')])


def story_ros(ns, patterns):
    for n in ns:
        ids = list(NAMES[:n])
        for pat in patterns:
            yield ids, pat, B.ro_doc([mk_story(s) for s in ids], pattern=pat)


def refs(ids, *, blank=True, absent=False, unknown=True):
    out = list(ids)
    if unknown:
        out.append(UNK)
    if blank:
        out.append(BLANK)
    if absent:
        out.append(ABSENT)
    return out


def rl(x):
    """label of a reference"""
    return 'blank' if x is BLANK else ('absent' if x is ABSENT else x)


def source_tuples(ids, max_len, *, faults=True):
    """Ordered tuples of distinct existing IDs (length 1..max_len), plus, for each tuple and each
    position k, the variants with the k-th source replaced by an unknown / blank / repeated ID."""
    seen = set()
    for L in range(1, max_len + 1):
        for tup in itertools.permutations(ids, L):
            yield tup
            if not faults:
                continue
            for k in range(L):
                for bad in (UNK, BLANK, 'REPEAT'):
                    if bad == 'REPEAT':
                        if L < 2:
                            continue
                        v = list(tup)
                        v[k] = tup[(k + 1) % L]
                    else:
                        v = list(tup)
                        v[k] = bad
                    key = tuple(('\0' if x is BLANK else x) for x in v)
                    if key in seen:
                        continue
                    seen.add(key)
                    yield tuple(v)
    if faults:
        for bad in (UNK, BLANK):
            yield (bad,)


def carried_variants(ids):
    """Lists of carried stories for insert-like messages: fresh, several, with duplicates of
    existing stories at each position."""
    X, Y, Z, W = new_story('X'), new_story('Y'), new_story('Z'), new_story('W')
    out = [('X', [X]), ('XYZ', [X, Y, Z]), ('XY', [X, Y])]
    if ids:
        d = new_story(ids[-1])
        out += [('dup', [d]), ('X,dup,Y', [X, d, Y]), ('dup,X', [d, X]), ('X,X', [X, new_story('X')]),
                ('dup,dup', [d, new_story(ids[-1])]), ('dup,X,dup,dup', [d, X, new_story(ids[-1]), new_story(ids[-1])]),
                ('first,X', [new_story(ids[0]), X])]
    out.append(('XYZW', [X, Y, Z, W]))
    return out


def _with_text(doc, tag, text):
    doc = TJ.canon(doc)
    for c in doc[4]:
        if c[0] == tag:
            c[2] = text
    return doc


def story_cases(ns=(0, 1, 2, 3, 4), patterns=B.PATTERNS, max_src=2, big_patterns=('every', 'lead')):
    """All story-level classes over all running orders of the scope."""
    for ids, pat, ro in story_ros(ns, patterns):
        n = len(ids)
        if n >= 4 and pat not in big_patterns:
            continue

        def case(cls, label, msg):
            return {'family': 'story', 'cls': cls, 'label': f'{cls}|n={n}|{pat}|{label}',
                    'ro': ro, 'msg': msg}

        # roStoryMove: zero, one or two storyIDs
        yield case('StoryMove', 'no-ids', B.story_move([]))
        for s in refs(ids):
            yield case('StoryMove', f'{rl(s)}->end(absent)', B.story_move([s]))
            for t in refs(ids):
                yield case('StoryMove', f'{rl(s)}->{rl(t)}', B.story_move([s, t]))
        # roStoryAppend
        for lbl, car in carried_variants(ids)[:4]:
            yield case('StoryAppend', lbl, B.story_append(car))
        yield case('StoryAppend', 'none', B.story_append([]))
        # roStoryDelete / EA story DELETE
        for tup in source_tuples(ids, max_src):
            lbl = ','.join(rl(x) for x in tup)
            yield case('StoryDelete', lbl, B.story_delete(tup))
            yield case('EAStoryDelete', lbl, B.ea('DELETE', ABSENT, [B.ids('storyID', tup)]))
            if len(tup) == 2:
                yield case('EAStoryDelete', lbl + '|2src',
                           B.ea('DELETE', ABSENT, [B.ids('storyID', tup[:1]), B.ids('storyID', tup[1:])]))
        yield case('StoryDelete', 'none', B.story_delete([]))
        # roStoryInsert / roStoryReplace / EA INSERT / EA REPLACE
        for t in refs(ids, absent=True):
            for lbl, car in carried_variants(ids):
                yield case('StoryInsert', f'{rl(t)}<-{lbl}', B.story_insert(t, car))
                yield case('EAStoryInsert', f'{rl(t)}<-{lbl}',
                           B.ea('INSERT', {'storyID': t}, [car]))
            # carried: none, one, three, two, a story re-using the target's own ID first / in the middle
            same = [(f'same-id,X', [new_story(t), new_story('X')]), ('X,same-id,Y', [new_story('X'), new_story(t), new_story('Y')])] \
                if isinstance(t, str) and t in ids else []
            for lbl, car in [('none', [])] + carried_variants(ids)[:3] + same + carried_variants(ids)[-1:]:
                yield case('StoryReplace', f'{rl(t)}<-{lbl}', B.story_replace(t, car))
                yield case('EAStoryReplace', f'{rl(t)}<-{lbl}',
                           B.ea('REPLACE', {'storyID': t}, [car]))
            # roStorySend of the t-th story
            yield case('StorySend', f'{rl(t)}',
                       B.story_send(t, [B.p('sent para'), B.item('sent-i1'), B.p(None), B.item('sent-i2')],
                                    pre=[E('storyNum', text='7')], post=[E('mosExternalMetadata', E('mosSchema', text='s'))]))
            # ... and messages that are not schema-shaped: whatever they raise, the running order stays as it was
            yield case('StorySend', f'{rl(t)}|no storyBody', B.story_send(t, [], body_present=False))
            yield case('StoryReplace', f'{rl(t)}|no stories, text only', _with_text(B.story_replace(t, []), 'roStoryReplace', 'stray text'))
            yield case('EAStoryReplace', f'{rl(t)}|no element_source', B.ea('REPLACE', {'storyID': t}, []))
            yield case('EAStoryInsert', f'{rl(t)}|no element_source', B.ea('INSERT', {'storyID': t}, []))
            yield case('EAStoryMove', f'{rl(t)}|no element_source', B.ea('MOVE', {'storyID': t}, []))
            yield case('EAStorySwap', f'{rl(t)}|one ID only', B.ea('SWAP', ABSENT, [B.ids('storyID', [t])]))
            yield case('EAStorySwap', f'{rl(t)}|three IDs', B.ea('SWAP', ABSENT, [B.ids('storyID', [t, t, UNK])]))
        for lbl, car in carried_variants(ids)[:2]:
            yield case('EAStoryInsert', f'no-target<-{lbl}', B.ea('INSERT', ABSENT, [car]))
            yield case('EAStoryReplace', f'no-target<-{lbl}', B.ea('REPLACE', ABSENT, [car]))
        # EA SWAP
        for a in refs(ids):
            for b in refs(ids):
                yield case('EAStorySwap', f'{rl(a)}<>{rl(b)}',
                           B.ea('SWAP', {'storyID': BLANK}, [B.ids('storyID', [a, b])]))
        if ids:
            yield case('EAStorySwap', 'no-target', B.ea('SWAP', ABSENT, [B.ids('storyID', [ids[0], ids[-1]])]))
        # EA MOVE
        for tup in source_tuples(ids, max_src):
            lbl = ','.join(rl(x) for x in tup)
            for t in refs(ids, absent=True):
                yield case('EAStoryMove', f'{lbl}->{rl(t)}',
                           B.ea('MOVE', {'storyID': t}, [B.ids('storyID', tup)]))
            yield case('EAStoryMove', f'{lbl}->no-target', B.ea('MOVE', ABSENT, [B.ids('storyID', tup)]))
            if len(tup) == 2:
                yield case('EAStoryMove', f'{lbl}->no-target|2src',
                           B.ea('MOVE', ABSENT, [B.ids('storyID', tup[:1]), B.ids('storyID', tup[1:])]))


def item_ros(ms, item_patterns, positions=(0, 1)):
    """Running orders for item-level cases: three stories A, B, C that all carry the *same* item
    IDs; the addressed story (at each of `positions`) has m items laid out by item pattern."""
    for m in ms:
        iids = [f'I{k + 1}' for k in range(m)]
        for ipat in item_patterns:
            for pos in positions:
                sids = ['A', 'B', 'C']
                stories = []
                for k, s in enumerate(sids):
                    if k == pos:
                        stories.append(mk_story(s, m, ipat))
                    else:
                        stories.append(mk_story(s, 2, 'between'))
                ro = B.ro_doc(stories, pattern='every' if pos else 'lead')
                yield sids, sids[pos], iids, ipat, ro


def new_item(iid):
    return B.item(iid, extra=[E('itemEdDur', text='5')])


def item_cases(ms=(0, 1, 2, 3, 4), item_patterns=('plain', 'lead', 'between', 'trail', 'every', 'first'),
               max_src=2, positions=(0, 1), big_patterns=('every', 'plain')):
    for sids, sid, iids, ipat, ro in item_ros(ms, item_patterns, positions):
        m = len(iids)
        if m >= 4 and ipat not in big_patterns:
            continue

        def case(cls, label, msg):
            return {'family': 'item', 'cls': cls, 'label': f'{cls}|m={m}|{ipat}|in={sid}|{label}',
                    'ro': ro, 'msg': msg}

        X, Y, Z = new_item('NX'), new_item('NY'), new_item('NZ')
        carried = [('none', []), ('X', [X]), ('XY', [X, Y]), ('XYZ', [X, Y, Z])]
        if iids:
            carried.append(('X,dup', [X, new_item(iids[0])]))
            carried.append(('dup,X', [new_item(iids[0]), X]))
            carried.append(('X,last,Y', [X, new_item(iids[-1]), Y]))
        # story reference variants are explored with one fixed item payload
        for sref in (UNK, BLANK, ABSENT):
            r = rl(sref)
            i0 = iids[0] if iids else UNK
            yield case('ItemDelete', f'story={r}', B.item_delete(sref, [i0]))
            yield case('ItemInsert', f'story={r}', B.item_insert(sref, i0, [X]))
            yield case('ItemInsert', f'story={r}|end', B.item_insert(sref, BLANK, [X]))
            yield case('ItemReplace', f'story={r}', B.item_replace(sref, i0, [X]))
            yield case('ItemMoveMultiple', f'story={r}', B.item_move_multiple(sref, [i0, BLANK]))
            yield case('EAItemReplace', f'story={r}', B.ea('REPLACE', {'storyID': sref, 'itemID': i0}, [[X]]))
            yield case('EAItemDelete', f'story={r}', B.ea('DELETE', {'storyID': sref}, [B.ids('itemID', [i0])]))
            yield case('EAItemInsert', f'story={r}', B.ea('INSERT', {'storyID': sref, 'itemID': i0}, [[X]]))
            yield case('EAItemInsert', f'story={r}|end', B.ea('INSERT', {'storyID': sref, 'itemID': BLANK}, [[X]]))
            yield case('EAItemSwap', f'story={r}', B.ea('SWAP', {'storyID': sref}, [B.ids('itemID', [i0, i0])]))
            yield case('EAItemMove', f'story={r}', B.ea('MOVE', {'storyID': sref, 'itemID': BLANK}, [B.ids('itemID', [i0])]))
        yield case('EAItemDelete', 'no-target', B.ea('DELETE', ABSENT, [B.ids('itemID', [UNK])]))
        yield case('EAItemSwap', 'no-target', B.ea('SWAP', ABSENT, [B.ids('itemID', [UNK, UNK])]))
        # deletes
        for tup in source_tuples(iids, max_src):
            lbl = ','.join(rl(x) for x in tup)
            yield case('ItemDelete', lbl, B.item_delete(sid, tup))
            yield case('EAItemDelete', lbl, B.ea('DELETE', {'storyID': sid}, [B.ids('itemID', tup)]))
            if len(tup) == 2:
                yield case('EAItemDelete', lbl + '|2src',
                           B.ea('DELETE', {'storyID': sid}, [B.ids('itemID', tup[:1]), B.ids('itemID', tup[1:])]))
        yield case('ItemDelete', 'none', B.item_delete(sid, []))
        # inserts / replaces
        for t in refs(iids, absent=True):
            for lbl, car in carried:
                yield case('ItemInsert', f'{rl(t)}<-{lbl}', B.item_insert(sid, t, car))
                yield case('ItemReplace', f'{rl(t)}<-{lbl}', B.item_replace(sid, t, car))
                if t is not ABSENT:
                    yield case('EAItemInsert', f'{rl(t)}<-{lbl}',
                               B.ea('INSERT', {'storyID': sid, 'itemID': t}, [car]))
                    yield case('EAItemReplace', f'{rl(t)}<-{lbl}',
                               B.ea('REPLACE', {'storyID': sid, 'itemID': t}, [car]))
        # moves: roItemMoveMultiple (last ID is the target), EA MOVE
        yield case('ItemMoveMultiple', 'no-ids', B.item_move_multiple(sid, []))
        for t in refs(iids):
            yield case('ItemMoveMultiple', f'->{rl(t)}', B.item_move_multiple(sid, [t]))
        for tup in source_tuples(iids, max_src):
            lbl = ','.join(rl(x) for x in tup)
            for t in refs(iids):
                yield case('ItemMoveMultiple', f'{lbl}->{rl(t)}', B.item_move_multiple(sid, list(tup) + [t]))
                yield case('EAItemMove', f'{lbl}->{rl(t)}',
                           B.ea('MOVE', {'storyID': sid, 'itemID': t}, [B.ids('itemID', tup)]))
        # swaps
        for a in refs(iids):
            for b in refs(iids):
                yield case('EAItemSwap', f'{rl(a)}<>{rl(b)}',
                           B.ea('SWAP', {'storyID': sid}, [B.ids('itemID', [a, b])]))


def other_cases():
    """roReadyToAir, roMetadataReplace, roReplace, roDelete against a few running orders."""
    for ids, pat, ro in story_ros((0, 2, 3), ('lead', 'every')):
        n = len(ids)

        def case(cls, label, msg):
            return {'family': 'other', 'cls': cls, 'label': f'{cls}|n={n}|{pat}|{label}', 'ro': ro, 'msg': msg}

        yield case('ReadyToAir', '-', B.ready_to_air())
        yield case('RunningOrderEnd', '-', B.ro_delete())
        yield case('RunningOrderReplace', 'XY', B.ro_replace([new_story('X'), new_story('Y')], pattern='between'))
        yield case('RunningOrderReplace', 'empty', B.ro_replace([], pattern='lead'))
        md1 = B.timing_md(duration='5', schema='s1')
        md2 = B.timing_md(duration='6', schema='s2')
        yield case('MetaDataReplace', 'slug', B.metadata_replace([E('roSlug', text='new slug')]))
        yield case('MetaDataReplace', 'slug+new', B.metadata_replace([E('roSlug', text='new slug'), E('roEdDur', text='00:10:00')]))
        yield case('MetaDataReplace', 'md', B.metadata_replace([md1]))
        yield case('MetaDataReplace', 'md,md', B.metadata_replace([md1, md2]))
        yield case('MetaDataReplace', 'trigger twice', B.metadata_replace([E('roTrigger', text='t1'), E('roTrigger', text='t2')]))
        yield case('MetaDataReplace', 'none', B.metadata_replace([]))


def all_cases(tier='quick'):
    if tier == 'quick':
        yield from story_cases()
        yield from item_cases()
    else:
        yield from story_cases(ns=(0, 1, 2, 3, 4, 5), max_src=3, big_patterns=B.PATTERNS)
        yield from item_cases(ms=(0, 1, 2, 3, 4, 5), max_src=3, positions=(0, 1, 2),
                              big_patterns=('plain', 'lead', 'between', 'trail', 'every'))
    yield from other_cases()


def odd_cases():
    """G-odd: unusual but legal shapes — repeated tags, attributes, tails, several element_source tags,
    duplicate IDs, elements without IDs, nested look-alikes — for every merge property."""
    def with_attrs(t, **a):
        t = list(t)
        t[1] = [[k, v] for k, v in a.items()]
        return t

    def with_tail(t, tail):
        t = list(t)
        t[3] = tail
        return t

    st = lambda sid, m=2: mk_story(sid, m, 'every')
    stories = [with_attrs(st('A'), num='1'), with_tail(st('B'), '\n   '), st('C'), st('D')]
    ro = B.ro_doc(stories, pattern='every', ed_start='2021-03-04T09:00:00',
                  extra=[B.timing_md(duration='1', schema='s1'), B.timing_md(duration='2', schema='s2'), E('roTrigger', text='t')])
    dup = B.ro_doc([st('A'), st('B'), st('A'), st('C')], pattern='between')       # duplicate story ID
    noid = B.ro_doc([st('A'), B.story('B', [B.item('I1'), E('item', E('itemSlug', text='no id'))]), st('C')])
    out = []

    def case(cls, label, msg, r=ro):
        out.append({'family': 'odd', 'cls': cls, 'label': f'odd|{cls}|{label}', 'ro': r, 'msg': msg})

    X, Y = new_story('X'), new_story('Y')
    # several element_source tags: only the first is used by INSERT / REPLACE / SWAP / item MOVE
    case('EAStoryInsert', 'two sources', B.ea('INSERT', {'storyID': 'C'}, [[X], [Y]]))
    case('EAStoryReplace', 'two sources', B.ea('REPLACE', {'storyID': 'B'}, [[X], [Y]]))
    case('EAStorySwap', 'ids split over two sources', B.ea('SWAP', ABSENT, [B.ids('storyID', ['A']), B.ids('storyID', ['C'])]))
    case('EAStorySwap', 'two full sources', B.ea('SWAP', ABSENT, [B.ids('storyID', ['A', 'D']), B.ids('storyID', ['B', 'C'])]))
    case('EAItemMove', 'two sources', B.ea('MOVE', {'storyID': 'B', 'itemID': 'I1'}, [B.ids('itemID', ['I2']), B.ids('itemID', ['I1'])]))
    case('EAItemInsert', 'two sources', B.ea('INSERT', {'storyID': 'B', 'itemID': 'I2'}, [[new_item('N1')], [new_item('N2')]]))
    case('EAStoryDelete', 'three sources', B.ea('DELETE', ABSENT, [B.ids('storyID', ['D']), B.ids('storyID', ['A', 'ZZ']), B.ids('storyID', ['B'])]))
    case('EAStoryMove', 'three sources', B.ea('MOVE', {'storyID': 'A'}, [B.ids('storyID', ['D']), B.ids('storyID', ['C']), B.ids('storyID', ['B'])]))
    # two element_target tags, target with extra children
    m = B.ea('INSERT', {'storyID': 'C'}, [[X]])
    TJ_ea = [c for c in m[4] if c[0] == 'roElementAction'][0]
    TJ_ea[4].insert(1, E('element_target', E('storyID', text='A')))
    case('EAStoryInsert', 'two targets', m)
    # repeated reference tags in the plain messages
    m = B.story_insert('C', [X]); m[4][-1][4].insert(1, E('storyID', text='A'))
    case('StoryInsert', 'two storyIDs (first wins)', m)
    m = B.story_replace('B', [X]); m[4][-1][4].append(E('storyID', text='D'))
    case('StoryReplace', 'storyID repeated after the payload', m)
    case('StoryMove', 'three storyIDs', B.story_move(['D', 'B', 'A']))
    m = B.item_insert('B', 'I2', [new_item('N1')]); m[4][-1][4].insert(1, E('storyID', text='C'))
    case('ItemInsert', 'two storyIDs', m)
    # carried elements: without ID, with attributes and tails, nested look-alikes
    case('StoryAppend', 'story without ID', B.story_append([B.story(ABSENT, [B.item('Q1')]), X]))
    case('StoryInsert', 'story with blank ID', B.story_insert('B', [B.story(BLANK, []), X]))
    case('StoryInsert', 'attributes and tails', B.story_insert('B', [with_tail(with_attrs(new_story('X'), a='1', b='"q"'), 'tail text'), Y]))
    case('StoryReplace', 'carries a story nested in a story', B.story_replace('C', [B.story('X', [E('story', E('storyID', text='A'))])]))
    case('ItemInsert', 'item without ID', B.item_insert('C', 'I1', [E('item', E('itemSlug', text='s')), new_item('N2')]))
    case('ItemReplace', 'same ID as the replaced item', B.item_replace('C', 'I2', [new_item('I2'), new_item('I2')]))
    case('StoryReplace', 'same ID as the replaced story', B.story_replace('C', [new_story('C')]))
    case('StoryInsert', 'same new ID twice', B.story_insert('C', [new_story('X'), new_story('X')]))
    # roStorySend shapes
    case('StorySend', 'two storyBody elements', B.story_send('B', [B.item('S1')], post=[E('storyBody', B.p('second body'))]))
    case('StorySend', 'empty storyBody', B.story_send('C', []))
    case('StorySend', 'a storyBody element inside the storyBody', B.story_send('C', [E('storyBody', B.p('inner'), B.item('deep')), B.p('outer'), B.item('S1')]))
    case('StorySend', 'storyBody children named like the wrapper', B.story_send('B', [B.p('a'), E('storyBody'), E('storyBody', text='t'), B.item('S2')]))
    def _body_first(m_):
        b_ = TJ.find(m_, 'roStorySend')
        j_ = next(k_ for k_, c_ in enumerate(b_[4]) if c_[0] == 'storyBody')
        b_[4].insert(0, b_[4].pop(j_))
        return m_
    case('StorySend', 'storyBody is the first child', _body_first(B.story_send('C', [B.p('first'), B.item('S1'), B.p('last')])))
    case('StorySend', 'storyBody is the first child, metadata after it', _body_first(B.story_send('B', [B.item('S1')], post=[B.timing_md(duration='4')])))
    case('StorySend', 'body with nested storyItem', B.story_send('C', [E('p', E('storyItem', E('itemID', text='deep')), text='para'), B.item('S1')]))
    case('StorySend', 'storyID after the body', B.story_send(ABSENT, [B.item('S1')], slug=False, post=[E('storyID', text='D')]))
    case('StorySend', 'attributes and tail on the message element', (lambda d: (d[4][-1].__setitem__(1, [['x', 'y']]), d[4][-1].__setitem__(3, ' tail '), d)[2])(B.story_send('A', [B.p('x')])))
    # duplicate IDs in the running order
    case('StoryDelete', 'duplicate story ID in RO', B.story_delete(['A', 'A', 'A']), dup)
    case('StoryMove', 'move duplicate ID', B.story_move(['A', 'C']), dup)
    case('EAStorySwap', 'swap duplicate ID with itself', B.ea('SWAP', ABSENT, [B.ids('storyID', ['A', 'A'])]), dup)
    case('StoryInsert', 'insert into RO with duplicates', B.story_insert('A', [X, new_story('A')]), dup)
    case('ItemDelete', 'item delete in duplicate story', B.item_delete('A', ['I1', 'I2']), dup)
    # items without IDs inside the addressed story (find_child dereferences itemID)
    case('ItemDelete', 'addressed story has an item without ID', B.item_delete('B', ['I1']), noid)
    case('ItemInsert', 'end of a story with an ID-less item', B.item_insert('B', BLANK, [new_item('N')]), noid)
    case('ItemDelete', 'ID-less item before the match', B.item_delete('B', ['ZZ']), noid)
    # metadata replace shapes
    case('MetaDataReplace', 'schema s2 only', B.metadata_replace([B.timing_md(duration='9', schema='s2')]))
    case('MetaDataReplace', 'unknown schema + known', B.metadata_replace([B.timing_md(duration='7', schema='s3'), B.timing_md(duration='8', schema='s1')]))
    case('MetaDataReplace', 'block without mosSchema', B.metadata_replace([E('mosExternalMetadata', E('mosPayload'))]))
    case('MetaDataReplace', 'carries a story', B.metadata_replace([E('roSlug', text='x'), new_story('Q')]))
    case('MetaDataReplace', 'same tag three times', B.metadata_replace([E('roTrigger', text='1'), E('roTrigger', text='2'), E('roTrigger', text='3')]))
    # roReplace / roDelete shapes
    case('RunningOrderReplace', 'with attributes and tail', (lambda d: (d[4][-1].__setitem__(1, [['v', '1']]), d[4][-1].__setitem__(3, '\n'), d)[2])(B.ro_replace([X], pattern='none')))
    case('RunningOrderEnd', 'roDelete with payload and tail', (lambda d: (d[4][-1][4].append(E('note', text='bye', tail=' t ')), d[4][-1].__setitem__(3, '\n '), d)[2])(B.ro_delete()))
    # multi-ID lists of length 4 and 5
    case('EAStoryMove', 'four sources reversed', B.ea('MOVE', ABSENT, [B.ids('storyID', ['D', 'C', 'B', 'A'])]))
    case('StoryDelete', 'five ids mixed', B.story_delete(['B', 'ZZ', 'D', BLANK, 'B']))
    case('ItemMoveMultiple', 'all items before first', B.item_move_multiple('A', ['I2', 'I1', 'I1']))
    # running orders that contain a story / an item whose own ID tag is EMPTY, against blank and
    # non-blank references (a blank reference must not match a blank ID; lookups must not trip over it)
    blank_ro = B.ro_doc([st('A'), B.story(BLANK, [B.item('I1'), B.item(BLANK), B.item('I2')]), st('C'),
                         B.story('D', [B.item(BLANK), B.item('I1')])], pattern='every')
    for lbl, msg in [
            ('delete blank', B.story_delete([BLANK])), ('delete C after blank', B.story_delete(['C'])),
            ('delete unknown', B.story_delete(['ZZ'])), ('replace blank', B.story_replace(BLANK, [X])),
            ('replace C', B.story_replace('C', [X])), ('insert before blank', B.story_insert(BLANK, [X])),
            ('insert before C', B.story_insert('C', [X])), ('move C before A', B.story_move(['C', 'A'])),
            ('move blank', B.story_move([BLANK, 'A'])), ('send C', B.story_send('C', [B.p('x')])),
            ('send blank', B.story_send(BLANK, [B.p('x')])),
            ('ea delete blank,C', B.ea('DELETE', ABSENT, [B.ids('storyID', [BLANK, 'C'])])),
            ('ea swap A,blank', B.ea('SWAP', ABSENT, [B.ids('storyID', ['A', BLANK])])),
            ('ea swap C,D', B.ea('SWAP', ABSENT, [B.ids('storyID', ['C', 'D'])])),
            ('ea move D before blank', B.ea('MOVE', {'storyID': BLANK}, [B.ids('storyID', ['D'])])),
            ('ea replace blank', B.ea('REPLACE', {'storyID': BLANK}, [[X]])),
            ('item delete blank in D', B.item_delete('D', [BLANK])), ('item delete I1 in D', B.item_delete('D', ['I1'])),
            ('item replace blank in D', B.item_replace('D', BLANK, [new_item('N')])),
            ('item replace I1 in D', B.item_replace('D', 'I1', [new_item('N')])),
            ('item insert before I1 in D', B.item_insert('D', 'I1', [new_item('N')])),
            ('item delete in blank story', B.item_delete(BLANK, ['I1'])),
            ('item move in D', B.item_move_multiple('D', ['I1', BLANK])),
            ('ea item swap I1,blank in D', B.ea('SWAP', {'storyID': 'D'}, [B.ids('itemID', ['I1', BLANK])])),
            ('ea item delete blank,I1 in D', B.ea('DELETE', {'storyID': 'D'}, [B.ids('itemID', [BLANK, 'I1'])]))]:
        cls = {'delete blank': 'StoryDelete', 'delete C after blank': 'StoryDelete', 'delete unknown': 'StoryDelete',
               'replace blank': 'StoryReplace', 'replace C': 'StoryReplace', 'insert before blank': 'StoryInsert',
               'insert before C': 'StoryInsert', 'move C before A': 'StoryMove', 'move blank': 'StoryMove',
               'send C': 'StorySend', 'send blank': 'StorySend', 'ea delete blank,C': 'EAStoryDelete',
               'ea swap A,blank': 'EAStorySwap', 'ea swap C,D': 'EAStorySwap', 'ea move D before blank': 'EAStoryMove',
               'ea replace blank': 'EAStoryReplace', 'item delete blank in D': 'ItemDelete', 'item delete I1 in D': 'ItemDelete',
               'item replace blank in D': 'ItemReplace', 'item replace I1 in D': 'ItemReplace',
               'item insert before I1 in D': 'ItemInsert', 'item delete in blank story': 'ItemDelete',
               'item move in D': 'ItemMoveMultiple', 'ea item swap I1,blank in D': 'EAItemSwap',
               'ea item delete blank,I1 in D': 'EAItemDelete'}[lbl]
        case(cls, 'blank IDs in RO: ' + lbl, msg, blank_ro)
    # carriage returns (only enterable as &#13;) inside carried payloads
    CR = '@@CR@@'
    crp = lambda: B.p('line one' + CR + 'line two')
    for cls, msg in [('StorySend', B.story_send('B', [crp(), B.item('S1', extra=[E('note', text='a' + CR, tail=CR + 'z')])])),
                     ('StoryAppend', B.story_append([B.story('X', [crp()])])),
                     ('StoryInsert', B.story_insert('C', [B.story('X', [crp(), B.item('X1')])])),
                     ('ItemInsert', B.item_insert('B', 'I1', [B.item('N', extra=[E('note', text=CR + 'n' + CR)])])),
                     ('MetaDataReplace', B.metadata_replace([E('roSlug', text='slug' + CR + 'x')])),
                     ('RunningOrderReplace', B.ro_replace([B.story('X', [crp()])]))]:
        case(cls, 'payload with U+000D', msg)
        out[-1]['msg_text'] = TJ.to_text(msg).replace(CR, '&#13;')
    # ... and carriage returns in the RUNNING ORDER (its text says &#13;): a failing message must leave them alone
    cr_ro = B.ro_doc([B.story('A', [B.item('I1'), B.p('line one' + CR + 'line two'), B.item('I2')]), st('B')], slug='slug' + CR + 'x')
    for cls, msg in [('StoryMove', B.story_move(['ZZ', 'A'])), ('ItemMoveMultiple', B.item_move_multiple('A', ['I1', 'ZZ', 'I2'])),
                     ('StoryReplace', B.story_replace('ZZ', [X])), ('EAStorySwap', B.ea('SWAP', ABSENT, [B.ids('storyID', ['A', 'ZZ'])])),
                     ('ItemReplace', B.item_replace('A', 'ZZ', [new_item('N')])), ('StoryDelete', B.story_delete(['B'])),
                     ('ItemDelete', B.item_delete('A', ['I2'])), ('MetaDataReplace', B.metadata_replace([E('roTrigger', text='t')]))]:
        case(cls, 'running order with U+000D', msg, cr_ro)
        out[-1]['ro_text'] = TJ.to_text(cr_ro).replace(CR, '&#13;')
    # comments, processing instructions and CDATA sections INSIDE ID elements and between children (the text says so;
    # what counts is the character data)
    c_ro = TJ.to_text(B.ro_doc([B.story('A', [B.item('I1'), B.item('I2'), B.item('I3')]), st('B')]))
    c_ro = c_ro.replace('<itemID>I2</itemID>', '<itemID><!-- re-keyed -->I2</itemID>', 1).replace('<storyID>B</storyID>', '<storyID>B<!-- c --></storyID>', 1) \
               .replace('<itemID>I3</itemID>', '<itemID><![CDATA[I3]]></itemID>', 1)
    for cls, msg in [('ItemDelete', B.item_delete('A', ['I2', 'I3'])), ('ItemMoveMultiple', B.item_move_multiple('A', ['I3', 'I2'])),
                     ('EAItemSwap', B.ea('SWAP', {'storyID': 'A'}, [B.ids('itemID', ['I1', 'I2'])])), ('StoryMove', B.story_move(['B', 'A'])),
                     ('StoryDelete', B.story_delete(['B'])), ('ItemReplace', B.item_replace('A', 'I3', [new_item('N')]))]:
        case(cls, 'comments / CDATA inside ID elements of the running order', msg, TJ.parse(c_ro))
        out[-1]['ro_text'] = c_ro
        m_text = TJ.to_text(msg).replace('<itemID>I2</itemID>', '<itemID>I<!-- split -->2</itemID>').replace('<storyID>B</storyID>', '<storyID><?pi x?>B</storyID>')
        case(cls, 'comments / PIs inside ID elements of the message', TJ.parse(m_text))
        out[-1]['msg_text'] = m_text
    # messages addressed to ANOTHER running order (different roID): the merge methods do not look at it
    for cls, msg in [('RunningOrderEnd', B.ro_delete(ro_id='OTHER')), ('StoryAppend', B.story_append([X], ro_id='OTHER')),
                     ('StoryDelete', B.story_delete(['B'], ro_id='OTHER')), ('ReadyToAir', B.ready_to_air(ro_id='OTHER')),
                     ('MetaDataReplace', B.metadata_replace([E('roSlug', text='s')], ro_id='OTHER'))]:
        case(cls, 'other roID', msg)
    # ... and with a BLANK or padded roID (what a roDelete records is what it carried; completion does not depend on it)
    for rid, what in ((BLANK, 'blank roID'), ('  ', 'whitespace roID'), (' RO1\n', 'padded roID')):
        for cls, msg in [('RunningOrderEnd', B.ro_delete(ro_id=rid)), ('StoryAppend', B.story_append([X], ro_id=rid)), ('ReadyToAir', B.ready_to_air(ro_id=rid))]:
            case(cls, what, msg)
    # completed running orders refuse every class, a second roDelete included
    done = TJ.canon(ro)
    done[4].append(E('mosromgrmeta', E('roDelete', E('roID', text='RO1'))))
    for cls, msg in [('RunningOrderEnd', B.ro_delete()), ('ReadyToAir', B.ready_to_air()), ('StoryAppend', B.story_append([X])),
                     ('RunningOrderReplace', B.ro_replace([X])), ('MetaDataReplace', B.metadata_replace([E('roSlug', text='s')])),
                     ('StoryDelete', B.story_delete(['A'])), ('StorySend', B.story_send('A', [B.p('x')])),
                     ('EAStorySwap', B.ea('SWAP', ABSENT, [B.ids('storyID', ['A', 'B'])])),
                     ('ItemDelete', B.item_delete('A', ['I1'])), ('EAItemMove', B.ea('MOVE', {'storyID': 'A', 'itemID': BLANK}, [B.ids('itemID', ['I1'])]))]:
        case(cls, 'completed running order', msg, done)
        # ... whatever the envelope of the later message looks like (messageID missing, blank, not a number)
        for mid in (ABSENT, BLANK, 'abc', '007'):
            m2 = TJ.canon(msg)
            m2[4] = [k for k in m2[4] if k[0] != 'messageID'] if mid is ABSENT else \
                [(E('messageID', text=mid) if k[0] == 'messageID' else k) for k in m2[4]]
            case(cls, 'completed running order, messageID %r' % (mid,), m2, done)
    # the running order's own envelope is as free as a message's: roCreate first, fields missing
    first = TJ.canon(ro)
    first[4] = first[4][-1:] + first[4][:-1]
    bare = TJ.canon(ro)
    bare[4] = [k for k in bare[4] if k[0] in ('messageID', 'roCreate')]
    for r2, lbl in ((first, 'roCreate first in the envelope'), (bare, 'bare envelope')):
        for cls, msg in [('RunningOrderReplace', B.ro_replace([X, Y])), ('MetaDataReplace', B.metadata_replace([E('roSlug', text='s')])),
                         ('RunningOrderEnd', B.ro_delete()), ('StoryAppend', B.story_append([X])),
                         ('StoryDelete', B.story_delete(['B'])), ('ReadyToAir', B.ready_to_air())]:
            case(cls, lbl, msg, r2)
    # IDs are opaque strings: look-alikes that differ only by padding, letter case or a comma are different IDs
    HEX = 'ABCDEF0123456789ABCDEF0123456789'
    pad = B.ro_doc([st('A'), st('A '), st(' A'), st('a'), B.story('B', [B.item('I1'), B.item('I1 '), B.item(' I1'), B.item('i1'), B.item(HEX), B.item(HEX.lower())]),
                    st(HEX.lower()), st(HEX),
                    st('B ')], pattern='between')
    for cls, lbl, msg in [
            ('StoryDelete', 'padded ref names the padded story', B.story_delete(['A '])),
            ('StoryDelete', 'padded ref matching nothing', B.story_delete(['A  ', 'A\n'])),
            ('StoryDelete', 'lower-case ref', B.story_delete(['a'])),
            ('StoryReplace', 'padded target', B.story_replace(' A', [X])),
            ('StoryReplace', 'padded target matching nothing', B.story_replace('B  ', [X])),
            ('StoryInsert', 'padded target', B.story_insert('B ', [X])),
            ('StoryInsert', 'carried ID is a padded look-alike', B.story_insert('B', [new_story('A  '), new_story('A ')])),
            ('StoryMove', 'padded refs', B.story_move(['B ', 'A '])),
            ('StorySend', 'padded ref', B.story_send('A ', [B.p('x')])),
            ('ItemDelete', 'padded item ref', B.item_delete('B', ['I1 '])),
            ('ItemDelete', 'padded item ref matching nothing', B.item_delete('B', ['I1  ', 'I1'])),
            ('ItemDelete', 'padded story ref', B.item_delete('B ', ['I1'])),
            ('ItemReplace', 'padded item ref', B.item_replace('B', ' I1', [new_item('N')])),
            ('ItemInsert', 'case look-alike', B.item_insert('B', 'i1', [new_item('N')])),
            ('ItemMoveMultiple', 'padded refs', B.item_move_multiple('B', ['I1 ', 'I1'])),
            ('EAStoryDelete', 'padded refs', B.ea('DELETE', ABSENT, [B.ids('storyID', ['A ', ' B'])])),
            ('EAStorySwap', 'look-alikes swapped', B.ea('SWAP', ABSENT, [B.ids('storyID', ['A ', 'a'])])),
            ('EAStoryMove', 'padded', B.ea('MOVE', {'storyID': 'A '}, [B.ids('storyID', ['B '])])),
            ('EAStoryReplace', 'padded target matching nothing', B.ea('REPLACE', {'storyID': 'a '}, [[X]])),
            ('EAItemReplace', 'padded item matching nothing', B.ea('REPLACE', {'storyID': 'B', 'itemID': 'I1  '}, [[new_item('N')]])),
            ('EAItemReplace', 'padded item', B.ea('REPLACE', {'storyID': 'B', 'itemID': 'I1 '}, [[new_item('N')]])),
            ('EAItemDelete', 'padded', B.ea('DELETE', {'storyID': 'B'}, [B.ids('itemID', [' I1', 'I1  '])])),
            ('EAItemSwap', 'padded', B.ea('SWAP', {'storyID': 'B'}, [B.ids('itemID', ['I1', 'I1 '])])),
            ('EAItemMove', 'padded', B.ea('MOVE', {'storyID': 'B', 'itemID': 'I1'}, [B.ids('itemID', ['i1', 'I1 '])])),
            ('EAItemInsert', 'padded', B.ea('INSERT', {'storyID': 'B', 'itemID': ' I1'}, [[new_item('N')]])),
            ('ItemDelete', 'lower-case hex ID', B.item_delete('B', [HEX.lower()])), ('ItemMoveMultiple', 'hex IDs', B.item_move_multiple('B', [HEX.lower(), HEX])),
            ('EAItemSwap', 'hex IDs', B.ea('SWAP', {'storyID': 'B'}, [B.ids('itemID', [HEX.lower(), 'I1'])])),
            ('EAItemMove', 'hex IDs', B.ea('MOVE', {'storyID': 'B', 'itemID': HEX}, [B.ids('itemID', [HEX.lower()])])),
            ('StoryDelete', 'upper-case hex story', B.story_delete([HEX])), ('StoryMove', 'hex stories', B.story_move([HEX, HEX.lower()]))]:
        case(cls, 'look-alike IDs: ' + lbl, msg, pad)
    # roElementAction whose operation attribute is missing, misspelt, lower-case or accompanied by others:
    # classification must answer (UnknownMosFileType or a class), never escape as a built-in exception
    for op, extra in [(ABSENT, {}), (ABSENT, {'Operation': 'MOVE'}), (ABSENT, {'op': 'DELETE'}), ('move', {}), ('', {}), ('MOVE ', {}),
                      ('MOVE', {'operation2': 'x'}), ('INSERT', {'type': 'story'})]:
        m = B.ea(op, {'storyID': 'A'}, [B.ids('storyID', ['B'])])
        ea_el = [c for c in m[4] if c[0] == 'roElementAction'][0]
        ea_el[1].extend([k, v] for k, v in extra.items())
        case('EAStoryMove', f'operation={op!r} extra={sorted(extra)}', m)
    # IDs with characters that matter to XPath predicates, format strings and XML escaping
    from .gen_hist import SPECIAL_IDS
    for k, sp in enumerate(SPECIAL_IDS):
        other = SPECIAL_IDS[(k + 5) % len(SPECIAL_IDS)]
        # (a blank-ID story and a blank-ID item come first: str(None) == 'None' and the like must not make them match)
        sro = B.ro_doc([B.story(BLANK, [B.item('I0')]), st('A'), B.story(sp, [B.item(BLANK), B.item('I1'), B.item(sp), B.p('x'), B.item(other)]), st(other)], pattern='between')
        for cls, lbl, msg in [
                ('StoryDelete', 'delete', B.story_delete([sp])), ('StoryMove', 'move', B.story_move([other, sp])),
                ('StoryReplace', 'replace', B.story_replace(sp, [X])), ('StoryInsert', 'insert before', B.story_insert(sp, [X])),
                ('StorySend', 'send', B.story_send(sp, [B.p('y')])),
                ('EAStorySwap', 'swap', B.ea('SWAP', ABSENT, [B.ids('storyID', [sp, other])])),
                ('EAStoryMove', 'ea move', B.ea('MOVE', {'storyID': sp}, [B.ids('storyID', [other])])),
                ('ItemDelete', 'item delete', B.item_delete(sp, [sp])), ('ItemInsert', 'item insert', B.item_insert(sp, sp, [new_item('N')])),
                ('ItemReplace', 'item replace', B.item_replace(sp, other, [new_item(sp)])),
                ('ItemMoveMultiple', 'item move', B.item_move_multiple(sp, [other, sp])),
                ('EAItemSwap', 'item swap', B.ea('SWAP', {'storyID': sp}, [B.ids('itemID', [sp, other])])),
                ('EAItemMove', 'ea item move', B.ea('MOVE', {'storyID': sp, 'itemID': 'I1'}, [B.ids('itemID', [sp])])),
                ('EAItemDelete', 'ea item delete', B.ea('DELETE', {'storyID': sp}, [B.ids('itemID', [other, sp])])),
                ('EAItemReplace', 'ea item replace', B.ea('REPLACE', {'storyID': sp, 'itemID': sp}, [[new_item('N')]])),
                # the failing paths build their messages from these IDs too
                ('ItemReplace', 'unknown item', B.item_replace(sp, 'ZZ', [new_item('N')])),
                ('EAItemReplace', 'unknown item', B.ea('REPLACE', {'storyID': sp, 'itemID': 'ZZ'}, [[new_item('N')]])),
                ('ItemInsert', 'unknown item', B.item_insert(sp, 'ZZ', [new_item('N')])),
                ('ItemMoveMultiple', 'unknown item', B.item_move_multiple(sp, [sp, 'ZZ'])),
                ('ItemDelete', 'unknown item', B.item_delete(sp, ['ZZ', sp])),
                ('StoryReplace', 'unknown story next to it', B.story_replace(sp + 'x', [X])),
                ('StoryInsert', 'carried duplicate', B.story_insert(other, [new_story(sp)]))]:
            case(cls, f'special ID {sp!r}: {lbl}', msg, sro)
    # a big running order: 300 stories of 3 items with metadata between them (child indexes up to ~600, beyond
    # every small-integer cache); operations far from both ends, self-referential ones included
    bigids = [f'B{k:03d}' for k in range(300)]
    big = B.ro_doc([B.story(i, [B.item(f'{i}-a'), B.p('t'), B.item(f'{i}-b'), B.item(f'{i}-c')]) for i in bigids], pattern='between')
    for cls, lbl, msg in [
            ('StoryMove', 'far move', B.story_move(['B280', 'B007'])),
            ('StoryMove', 'far story above itself', B.story_move(['B280', 'B280'])),
            ('StoryMove', 'near story above itself', B.story_move(['B003', 'B003'])),
            ('EAStoryMove', 'three far sources', B.ea('MOVE', {'storyID': 'B150'}, [B.ids('storyID', ['B299', 'B000', 'B151'])])),
            ('EAStoryMove', 'far source is the target', B.ea('MOVE', {'storyID': 'B290'}, [B.ids('storyID', ['B291', 'B290'])])),
            ('EAStoryMove', 'far source twice', B.ea('MOVE', {'storyID': 'B100'}, [B.ids('storyID', ['B291', 'B291'])])),
            ('EAStorySwap', 'ends', B.ea('SWAP', ABSENT, [B.ids('storyID', ['B000', 'B299'])])),
            ('EAStorySwap', 'far story with itself', B.ea('SWAP', ABSENT, [B.ids('storyID', ['B270', 'B270'])])),
            ('StoryDelete', 'scattered', B.story_delete(['B298', 'B001', 'B160', 'B161', 'B298'])),
            ('StoryInsert', 'before last', B.story_insert('B299', [X, Y])),
            ('StoryInsert', 'far duplicate', B.story_insert('B299', [new_story('B288'), X])),
            ('StoryReplace', 'far', B.story_replace('B277', [X, Y, new_story('Z')])),
            ('StorySend', 'late story', B.story_send('B281', [B.p('sent'), B.item('s1')])),
            ('ItemMoveMultiple', 'in late story', B.item_move_multiple('B290', ['B290-c', 'B290-a'])),
            ('ItemMoveMultiple', 'item above itself in late story', B.item_move_multiple('B290', ['B290-c', 'B290-c'])),
            ('EAItemSwap', 'in last story', B.ea('SWAP', {'storyID': 'B299'}, [B.ids('itemID', ['B299-a', 'B299-c'])])),
            ('EAItemMove', 'source is target in late story', B.ea('MOVE', {'storyID': 'B285', 'itemID': 'B285-b'}, [B.ids('itemID', ['B285-a', 'B285-b'])])),
            ('ItemDelete', 'same item IDs elsewhere', B.item_delete('B199', ['B199-b', 'B198-a']))]:
        case(cls, 'big running order: ' + lbl, msg, big)
    # IDs longer than any "field limit": two IDs that share their first 128 (255, 256) characters are different IDs
    for L in (127, 128, 129, 255, 256, 300):
        P = 'L' * L
        lro = B.ro_doc([st('A'), B.story(P + 'A', [B.item(P + 'x'), B.item('I1'), B.item(P + 'y')]), st('B'), B.story(P + 'C', [B.item(P + 'x')])], pattern='lead')
        for cls, lbl, msg in [
                ('StoryDelete', 'unknown long ID', B.story_delete([P + 'B'])), ('StoryDelete', 'known long ID', B.story_delete([P + 'C', P + 'B'])),
                ('StoryReplace', 'unknown long ID', B.story_replace(P + 'B', [X])), ('StoryMove', 'long IDs', B.story_move([P + 'C', P + 'A'])),
                ('StorySend', 'unknown long ID', B.story_send(P + 'B', [B.p('x')])), ('StoryInsert', 'carried long look-alike', B.story_insert('B', [new_story(P + 'B'), new_story(P + 'A')])),
                ('EAStorySwap', 'long look-alikes', B.ea('SWAP', ABSENT, [B.ids('storyID', [P + 'A', P + 'B'])])),
                ('ItemDelete', 'unknown long item', B.item_delete(P + 'A', [P + 'z', P + 'y'])), ('ItemDelete', 'story look-alike', B.item_delete(P + 'B', [P + 'x'])),
                ('EAItemDelete', 'story look-alike', B.ea('DELETE', {'storyID': P + 'B'}, [B.ids('itemID', [P + 'x'])])),
                ('EAItemDelete', 'item look-alike', B.ea('DELETE', {'storyID': P + 'A'}, [B.ids('itemID', [P + 'z'])])),
                ('ItemReplace', 'item look-alike', B.item_replace(P + 'A', P + 'z', [new_item('N')])),
                ('ItemMoveMultiple', 'long items', B.item_move_multiple(P + 'A', [P + 'y', P + 'x']))]:
            case(cls, f'IDs of {L}+1 characters: {lbl}', msg, lro)
    # messages that name MANY elements (beyond any "small list" fast path): 33, 35, 64, 65 IDs, with unknown, blank and
    # repeated ones among them, against a story that holds two items with the same ID
    many_items = [B.item(f'w{k:03d}') for k in range(80)]
    many_items.insert(40, B.item('DUP')); many_items.insert(60, B.item('DUP'))
    mro = B.ro_doc([st('A'), B.story('W', many_items), st('C')] + [B.story(f'Z{k:03d}', []) for k in range(70)])
    for n in (33, 35, 64, 65):
        idsn = [f'w{k:03d}' for k in range(n - 5)]
        for cls, lbl, msg in [
                ('ItemDelete', 'with a repeated duplicate ID', B.item_delete('W', idsn + ['DUP', 'ZZ', 'DUP', BLANK, 'w000'])),
                ('EAItemDelete', 'with a repeated duplicate ID', B.ea('DELETE', {'storyID': 'W'}, [B.ids('itemID', ['DUP'] + idsn + ['DUP', 'ZZ', 'w001', 'w079'])])),
                ('ItemMoveMultiple', 'many sources', B.item_move_multiple('W', idsn + ['w079', 'w078', 'w077', 'w076', 'w075'])),
                ('EAItemMove', 'many sources', B.ea('MOVE', {'storyID': 'W', 'itemID': 'w079'}, [B.ids('itemID', list(reversed(idsn)) + ['w078', 'w077', 'w076', 'w075', 'DUP'])])),
                ('StoryDelete', 'many stories', B.story_delete([f'Z{k:03d}' for k in range(n - 3)] + ['ZZ', 'Z000', 'C'])),
                ('EAStoryDelete', 'many stories', B.ea('DELETE', ABSENT, [B.ids('storyID', [f'Z{k:03d}' for k in range(n)])])),
                ('EAStoryMove', 'many stories', B.ea('MOVE', {'storyID': 'A'}, [B.ids('storyID', [f'Z{k:03d}' for k in reversed(range(n))])])),
                ('StoryInsert', 'many carried', B.story_insert('C', [new_story(f'N{k}') for k in range(n - 2)] + [new_story('A'), new_story('N0')])),
                ('StoryAppend', 'many carried', B.story_append([B.story(f'N{k}', []) for k in range(n)]))]:
            case(cls, f'{n} named elements: {lbl}', msg, mro)
    # ... and the same lists "to the end" (blank / absent target), at the sizes around 16 and 32 too
    for n in (16, 17, 32, 33, 65):
        its = [f'w{k:03d}' for k in range(3, 3 + n)]
        sts = [f'Z{k:03d}' for k in range(2, 2 + n)]
        for cls, lbl, msg in [
                ('ItemMoveMultiple', 'to the end', B.item_move_multiple('W', list(reversed(its)) + [BLANK])),
                ('EAItemMove', 'to the end', B.ea('MOVE', {'storyID': 'W', 'itemID': BLANK}, [B.ids('itemID', its[::2] + its[1::2])])),
                ('EAItemMove', 'to the end, no itemID tag', B.ea('MOVE', {'storyID': 'W'}, [B.ids('itemID', its)])),
                ('EAStoryMove', 'to the end', B.ea('MOVE', {'storyID': BLANK}, [B.ids('storyID', list(reversed(sts)))])),
                ('EAStoryMove', 'to the end, one unknown', B.ea('MOVE', {'storyID': BLANK}, [B.ids('storyID', sts[:-1] + ['ZZ'])])),
                ('StoryInsert', 'to the end', B.story_insert(BLANK, [B.story(f'N{k}', []) for k in range(n)])),
                ('EAStoryInsert', 'to the end', B.ea('INSERT', {'storyID': BLANK}, [[B.story(f'N{k}', []) for k in range(n - 1)] + [B.story('A', [])]])),
                ('ItemInsert', 'to the end', B.item_insert('W', BLANK, [B.item(f'n{k}') for k in range(n)])),
                ('EAItemInsert', 'to the end', B.ea('INSERT', {'storyID': 'W', 'itemID': BLANK}, [[B.item(f'n{k}') for k in range(n)]])),
                ('EAItemDelete', 'exactly n', B.ea('DELETE', {'storyID': 'W'}, [B.ids('itemID', its)])),
                ('StoryDelete', 'exactly n', B.story_delete(sts))]:
            case(cls, f'{n} named elements: {lbl}', msg, mro)
    # a story with 300 items: the same for item indexes
    wide = B.ro_doc([st('A'), B.story('W', [B.item(f'w{k:03d}') for k in range(300)]), st('C')])
    for cls, lbl, msg in [
            ('ItemMoveMultiple', 'far item above itself', B.item_move_multiple('W', ['w280', 'w280'])),
            ('ItemMoveMultiple', 'far sources, one the target', B.item_move_multiple('W', ['w290', 'w270', 'w290'])),
            ('EAItemMove', 'far', B.ea('MOVE', {'storyID': 'W', 'itemID': 'w010'}, [B.ids('itemID', ['w299', 'w260'])])),
            ('EAItemSwap', 'far item with itself', B.ea('SWAP', {'storyID': 'W'}, [B.ids('itemID', ['w277', 'w277'])])),
            ('EAItemDelete', 'far', B.ea('DELETE', {'storyID': 'W'}, [B.ids('itemID', ['w299', 'w000', 'w258', 'w299'])])),
            ('ItemReplace', 'far', B.item_replace('W', 'w288', [new_item('N1'), new_item('w288')])),
            ('ItemInsert', 'far', B.item_insert('W', 'w299', [new_item('N1')]))]:
        case(cls, 'wide story: ' + lbl, msg, wide)
    # elements NESTED in payloads carry IDs too: a <story>/<item> below an item's mosPayload is not a story/item of the
    # running order - whatever a message names, only direct children count
    nest = B.ro_doc([B.story('A', [B.item('I1', extra=[E('mosExternalMetadata', E('mosSchema', text='v'), E('mosPayload',
                        E('item', E('itemID', text='N1'), E('itemSlug', text='nested item')),
                        E('story', E('storyID', text='NS'), E('item', E('itemID', text='N2')))))]), B.item('I2'), B.item('I3')]),
                     st('B')], pattern='lead')
    for cls, lbl, msg in [
            ('StoryInsert', 'carried ID equals a nested story ID', B.story_insert('B', [new_story('NS'), X])),
            ('EAStoryInsert', 'carried ID equals a nested story ID', B.ea('INSERT', {'storyID': 'B'}, [[new_story('NS')]])),
            ('StoryDelete', 'nested story ID', B.story_delete(['NS', 'B'])),
            ('StoryMove', 'nested story ID', B.story_move(['NS', 'A'])),
            ('StoryReplace', 'nested story ID', B.story_replace('NS', [X])),
            ('StorySend', 'nested story ID', B.story_send('NS', [B.p('x')])),
            ('EAStorySwap', 'nested story ID', B.ea('SWAP', ABSENT, [B.ids('storyID', ['A', 'NS'])])),
            ('ItemMoveMultiple', 'second source is a nested item', B.item_move_multiple('A', ['I3', 'N1', 'I1'])),
            ('ItemMoveMultiple', 'third source is a nested item', B.item_move_multiple('A', ['I3', 'I2', 'N1', 'I1'])),
            ('ItemMoveMultiple', 'target is a nested item', B.item_move_multiple('A', ['I3', 'N1'])),
            ('EAItemMove', 'second source is a nested item', B.ea('MOVE', {'storyID': 'A', 'itemID': 'I1'}, [B.ids('itemID', ['I3', 'N1'])])),
            ('ItemDelete', 'nested item', B.item_delete('A', ['I2', 'N1', 'N2'])),
            ('EAItemDelete', 'nested item', B.ea('DELETE', {'storyID': 'A'}, [B.ids('itemID', ['N1', 'I2'])])),
            ('ItemReplace', 'nested item', B.item_replace('A', 'N1', [new_item('R')])),
            ('ItemInsert', 'before a nested item', B.item_insert('A', 'N2', [new_item('R')])),
            ('ItemInsert', 'carried ID equals a nested item ID', B.item_insert('A', 'I2', [new_item('N1')])),
            ('EAItemSwap', 'nested item', B.ea('SWAP', {'storyID': 'A'}, [B.ids('itemID', ['I2', 'N1'])])),
            ('ItemDelete', 'addressed story is a nested story', B.item_delete('NS', ['N2']))]:
        case(cls, 'nested look-alikes with IDs: ' + lbl, msg, nest)
    # the item a message names lives in ANOTHER story only (before or after the addressed one): it is not in the addressed
    # story, so the message fails or warns exactly as for an unknown item - the other story's item is nobody's business
    elsewhere = B.ro_doc([B.story('A', [B.item('I1'), B.p('a'), B.item('X9')]), B.story('B', [B.item('I1'), B.p('b'), B.item('I2')]),
                          B.story('C', [B.item('Y9'), B.item('I2')])], pattern='between')
    for other in ('X9', 'Y9'):
        for cls, lbl, msg in [
                ('ItemReplace', 'replace', B.item_replace('B', other, [new_item('N')])),
                ('EAItemReplace', 'ea replace', B.ea('REPLACE', {'storyID': 'B', 'itemID': other}, [[new_item('N')]])),
                ('ItemDelete', 'delete', B.item_delete('B', ['I1', other])),
                ('EAItemDelete', 'ea delete', B.ea('DELETE', {'storyID': 'B'}, [B.ids('itemID', [other, 'I2'])])),
                ('ItemInsert', 'insert before', B.item_insert('B', other, [new_item('N')])),
                ('EAItemInsert', 'ea insert before', B.ea('INSERT', {'storyID': 'B', 'itemID': other}, [[new_item('N')]])),
                ('ItemMoveMultiple', 'move source', B.item_move_multiple('B', [other, 'I1'])),
                ('ItemMoveMultiple', 'move target', B.item_move_multiple('B', ['I2', other])),
                ('EAItemMove', 'ea move source', B.ea('MOVE', {'storyID': 'B', 'itemID': 'I1'}, [B.ids('itemID', ['I2', other])])),
                ('EAItemMove', 'ea move target', B.ea('MOVE', {'storyID': 'B', 'itemID': other}, [B.ids('itemID', ['I2'])])),
                ('EAItemSwap', 'ea swap', B.ea('SWAP', {'storyID': 'B'}, [B.ids('itemID', ['I1', other])])),
                ('StorySend', 'send keeps the others', B.story_send('B', [B.p('sent'), B.item(other)]))]:
            case(cls, f'item {other} lives in another story only: ' + lbl, msg, elsewhere)
    # an UNKNOWN reference that means something to str.format / %-formatting, after a reference that resolves: reported
    # (or refused) like any other unknown reference
    for odd_ in ('{0}', '{guid}', '{3F2504E0-4F89-11D3}', '}{', '%s', '%(x)s', '100%', '%d'):
        for cls, lbl, msg in [
                ('StoryDelete', 'story delete', B.story_delete(['A', odd_, 'C'])), ('EAStoryDelete', 'ea story delete', B.ea('DELETE', ABSENT, [B.ids('storyID', ['B', odd_])])),
                ('ItemDelete', 'item delete', B.item_delete('B', ['I1', odd_])), ('EAItemDelete', 'ea item delete', B.ea('DELETE', {'storyID': 'B'}, [B.ids('itemID', ['I2', odd_, 'I1'])])),
                ('StoryMove', 'story move', B.story_move([odd_, 'A'])), ('EAStoryMove', 'ea story move', B.ea('MOVE', {'storyID': 'A'}, [B.ids('storyID', ['C', odd_])])),
                ('ItemMoveMultiple', 'item move', B.item_move_multiple('B', ['I2', odd_, 'I1'])), ('EAItemSwap', 'ea item swap', B.ea('SWAP', {'storyID': 'B'}, [B.ids('itemID', ['I1', odd_])])),
                ('StorySend', 'send', B.story_send(odd_, [B.p('x')])), ('StoryReplace', 'replace', B.story_replace(odd_, [X])), ('StoryInsert', 'insert', B.story_insert(odd_, [X]))]:
            case(cls, f'unknown reference {odd_!r} after a resolving one: ' + lbl, msg)
    # blank references against elements that have NO ID tag at all (a blank reference names nothing, them included)
    for cls, lbl, msg in [
            ('ItemDelete', 'blank ref', B.item_delete('B', [BLANK])), ('ItemDelete', 'blank and known', B.item_delete('B', [BLANK, 'I1', BLANK])),
            ('EAItemDelete', 'blank ref', B.ea('DELETE', {'storyID': 'B'}, [B.ids('itemID', [BLANK, 'I1'])])),
            ('ItemReplace', 'blank ref', B.item_replace('B', BLANK, [new_item('N')])),
            ('ItemMoveMultiple', 'blank source', B.item_move_multiple('B', [BLANK, 'I1'])),
            ('EAItemSwap', 'blank', B.ea('SWAP', {'storyID': 'B'}, [B.ids('itemID', [BLANK, 'I1'])])),
            ('EAItemMove', 'blank source', B.ea('MOVE', {'storyID': 'B', 'itemID': 'I1'}, [B.ids('itemID', [BLANK])])),
            ('EAItemReplace', 'blank', B.ea('REPLACE', {'storyID': 'B', 'itemID': BLANK}, [[new_item('N')]]))]:
        case(cls, 'ID-less item in the story: ' + lbl, msg, noid)
    noid_story = B.ro_doc([st('A'), E('story', E('storySlug', text='no id'), B.item('I1')), st('C')])
    for cls, lbl, msg in [
            ('StoryDelete', 'blank ref', B.story_delete([BLANK, 'C'])), ('StoryReplace', 'blank ref', B.story_replace(BLANK, [X])),
            ('StoryMove', 'blank source', B.story_move([BLANK, 'A'])), ('StorySend', 'blank', B.story_send(BLANK, [B.p('x')])),
            ('EAStoryDelete', 'blank', B.ea('DELETE', ABSENT, [B.ids('storyID', [BLANK, 'A'])])),
            ('EAStorySwap', 'blank', B.ea('SWAP', ABSENT, [B.ids('storyID', [BLANK, 'A'])])),
            ('ItemDelete', 'blank story ref', B.item_delete(BLANK, ['I1'])),
            ('StoryInsert', 'carried story without ID', B.story_insert('C', [E('story', E('storySlug', text='also no id'))]))]:
        case(cls, 'ID-less story in the running order: ' + lbl, msg, noid_story)
    # mosSchema values are opaque strings too: a trailing slash, other case or padding is another schema
    sl_ro = B.ro_doc(stories, pattern='lead', extra=[B.timing_md(duration='1', schema='http://example.org/planning'), B.timing_md(duration='2', schema='S1')])
    for sch in ('http://example.org/planning/', 'http://example.org/PLANNING', ' http://example.org/planning', 's1', 'S1 ', 'S1/'):
        case('MetaDataReplace', f'schema look-alike {sch!r}', B.metadata_replace([B.timing_md(duration='9', schema=sch)]), sl_ro)
    odd_sch = B.ro_doc(stories, pattern='lead', extra=[
        E('mosExternalMetadata', E('mosSchema', text='http://ncs/other'), E('mosSchema', text='http://ncs/schema/2'), E('mosPayload', E('keep', text='1'))),
        E('mosExternalMetadata', E('mosSchema', E('ver', text='2'), text='http://ncs/schema/'), E('mosPayload', E('keep', text='2'))),
        E('mosExternalMetadata', E('mosSchema', text='http://ncs/schema/'), E('mosPayload', E('keep', text='3')))])
    for sch in ('http://ncs/schema/2', 'http://ncs/schema/', 'http://ncs/other', "it's"):
        case('MetaDataReplace', f'schema text against blocks with two / nested mosSchema: {sch!r}', B.metadata_replace([B.timing_md(duration='9', schema=sch)]), odd_sch)
    # roMetadataReplace against running-order metadata blocks without a mosSchema (before / after / instead of a matching one)
    for k, blocks in enumerate([[E('mosExternalMetadata', E('mosPayload', E('x', text='no schema'))), B.timing_md(duration='1', schema='s1')],
                                [B.timing_md(duration='1', schema='s1'), E('mosExternalMetadata', E('mosPayload'))],
                                [E('mosExternalMetadata', E('mosPayload')), E('mosExternalMetadata')],
                                [E('mosExternalMetadata', E('mosSchema'), E('mosPayload'))]]):
        mro = B.ro_doc(stories, pattern='lead', extra=blocks)
        for lbl, msg in [('known schema', B.metadata_replace([B.timing_md(duration='9', schema='s1')])),
                         ('unknown schema', B.metadata_replace([B.timing_md(duration='9', schema='s9')])),
                         ('block without schema', B.metadata_replace([E('mosExternalMetadata', E('mosPayload', E('y')))])),
                         ('blank schema', B.metadata_replace([E('mosExternalMetadata', E('mosSchema'), E('mosPayload', E('z')))]))]:
            case('MetaDataReplace', f'running-order blocks #{k}: {lbl}', msg, mro)
    # a blank-ID story carried into a running order that already holds a blank-ID story
    for cls, lbl, msg in [
            ('StoryInsert', 'blank carried, blank present', B.story_insert('C', [B.story(BLANK, [B.item('Q')]), X])),
            ('StoryInsert', 'two blanks carried', B.story_insert('A', [B.story(BLANK, []), B.story(BLANK, [])])),
            ('EAStoryInsert', 'blank carried, blank present', B.ea('INSERT', {'storyID': 'C'}, [[B.story(BLANK, []), X]])),
            ('StoryAppend', 'blank carried, blank present', B.story_append([B.story(BLANK, [])])),
            ('StoryReplace', 'blank carried, blank present', B.story_replace('C', [B.story(BLANK, [])])),
            ('StoryInsert', 'ID-less carried, blank present', B.story_insert('C', [B.story(ABSENT, [])])),
            ('ItemInsert', 'blank item carried, blank present', B.item_insert('D', 'I1', [B.item(BLANK)])),
            ('ItemReplace', 'blank item carried', B.item_replace('D', 'I1', [B.item(BLANK), B.item(BLANK)]))]:
        case(cls, 'blank IDs in RO: ' + lbl, msg, blank_ro)
    return out
